import TuModel.Model.Edit
namespace Tu

/-! ## the reference recurrence and alignments -/

/-- the reference dynamic programme as a recursive definition on *reversed prefixes* (the head of
each list is the last character of the prefix): Levenshtein without swaps, optimal string
alignment with swaps, whitespace never substituted or transposed under `sid`. -/
def osaR (fl : EFlags) : List (List Nat) → List (List Nat) → Nat
  | [], bs => bs.length
  | x :: as, [] => as.length + 1
  | x :: as, y :: bs =>
    (minByFst (candidates fl x y as.head? bs.head?
      (osaR fl as (y :: bs)) (osaR fl (x :: as) bs) (osaR fl as bs) (osaR fl as.tail bs.tail))).1
termination_by as bs => as.length + bs.length
decreasing_by
  all_goals simp only [List.length_cons, List.length_tail]
  all_goals omega

/-- edit scripts between reversed prefixes, with their cost -/
inductive Align (fl : EFlags) : List (List Nat) → List (List Nat) → Nat → Prop
  | nil : Align fl [] [] 0
  | del (x) {as bs n} : Align fl as bs n → Align fl (x :: as) bs (n + 1)
  | ins (y) {as bs n} : Align fl as bs n → Align fl as (y :: bs) (n + 1)
  | keep (x) {as bs n} : Align fl as bs n → Align fl (x :: as) (x :: bs) n
  | rep {x y as bs n} : x ≠ y → canReplace fl x y = true → Align fl as bs n → Align fl (x :: as) (y :: bs) (n + 1)
  | swp {x x' as bs n} : fl.swap = true → canReplace fl x x' = true → Align fl as bs n →
      Align fl (x :: x' :: as) (x' :: x :: bs) (n + 1)

/-! ## `min_by` -/

theorem foldl_min_mem (xs : List (Nat × EOp)) (x : Nat × EOp) :
    xs.foldl (fun m y => if y.1 < m.1 then y else m) x ∈ x :: xs := by
  induction xs generalizing x with
  | nil => simp
  | cons y ys ih =>
    simp only [List.foldl_cons]
    by_cases h : y.1 < x.1
    · simp only [h, if_true]
      have := ih y
      simp only [List.mem_cons] at this ⊢
      rcases this with h | h
      · exact Or.inr (Or.inl h)
      · exact Or.inr (Or.inr h)
    · simp only [h, if_false]
      have := ih x
      simp only [List.mem_cons] at this ⊢
      rcases this with h | h
      · exact Or.inl h
      · exact Or.inr (Or.inr h)

theorem foldl_min_le (xs : List (Nat × EOp)) (x : Nat × EOp) :
    (xs.foldl (fun m y => if y.1 < m.1 then y else m) x).1 ≤ x.1 ∧
    ∀ z ∈ xs, (xs.foldl (fun m y => if y.1 < m.1 then y else m) x).1 ≤ z.1 := by
  induction xs generalizing x with
  | nil => simp
  | cons y ys ih =>
    simp only [List.foldl_cons]
    by_cases h : y.1 < x.1
    · simp only [h, if_true]
      obtain ⟨h1, h2⟩ := ih y
      refine ⟨by omega, ?_⟩
      intro z hz
      rcases List.mem_cons.mp hz with rfl | hz
      · exact h1
      · exact h2 z hz
    · simp only [h, if_false]
      obtain ⟨h1, h2⟩ := ih x
      refine ⟨h1, ?_⟩
      intro z hz
      rcases List.mem_cons.mp hz with rfl | hz
      · omega
      · exact h2 z hz

theorem minByFst_mem {l : List (Nat × EOp)} (h : l ≠ []) : minByFst l ∈ l := by
  cases l with
  | nil => exact absurd rfl h
  | cons x xs => exact foldl_min_mem xs x

theorem minByFst_le {l : List (Nat × EOp)} {z : Nat × EOp} (hz : z ∈ l) : (minByFst l).1 ≤ z.1 := by
  cases l with
  | nil => simp at hz
  | cons x xs =>
    rcases List.mem_cons.mp hz with rfl | hz
    · exact (foldl_min_le xs z).1
    · exact (foldl_min_le xs x).2 z hz

/-! ## the candidate list -/

theorem mem_candDiag {fl x y dD} {z : Nat × EOp} :
    z ∈ candDiag fl x y dD ↔ (x = y ∧ z = (dD, .keep)) ∨ (x ≠ y ∧ canReplace fl x y = true ∧ z = (dD + 1, .replace)) := by
  unfold candDiag
  by_cases hxy : x = y
  · simp [hxy]
  · have hb : (x == y) = false := by simpa using hxy
    by_cases hr : canReplace fl x y = true <;> simp [hb, hr, hxy]

theorem mem_candSwap {fl x y x' y' dS} {z : Nat × EOp} :
    z ∈ candSwap fl x y x' y' dS ↔
      ∃ u v, x' = some u ∧ y' = some v ∧ fl.swap = true ∧ x = v ∧ u = y ∧ canReplace fl x u = true ∧ z = (dS + 1, .swap) := by
  unfold candSwap
  cases x' with
  | none => simp
  | some u =>
    cases y' with
    | none => simp
    | some v =>
      by_cases hc : (fl.swap && x == v && u == y && canReplace fl x u) = true
      · simp only [hc, if_true, List.mem_singleton]
        simp only [Bool.and_eq_true, beq_iff_eq] at hc
        constructor
        · intro h; exact ⟨u, v, rfl, rfl, hc.1.1.1, hc.1.1.2, hc.1.2, hc.2, h⟩
        · rintro ⟨u', v', hu, hv, _, _, _, _, hz⟩; exact hz
      · simp only [hc]
        simp only [Bool.and_eq_true, beq_iff_eq] at hc
        constructor
        · intro h; simp at h
        · rintro ⟨u', v', hu, hv, h1, h2, h3, h4, _⟩
          cases hu; cases hv
          exact absurd ⟨⟨⟨h1, h2⟩, h3⟩, h4⟩ hc

theorem mem_candidates {fl x y x' y' dU dL dD dS} {z : Nat × EOp} :
    z ∈ candidates fl x y x' y' dU dL dD dS ↔
      z = (dU + 1, .delete) ∨ z = (dL + 1, .insert) ∨ (x = y ∧ z = (dD, .keep)) ∨
      (x ≠ y ∧ canReplace fl x y = true ∧ z = (dD + 1, .replace)) ∨
      (∃ u v, x' = some u ∧ y' = some v ∧ fl.swap = true ∧ x = v ∧ u = y ∧ canReplace fl x u = true ∧ z = (dS + 1, .swap)) := by
  unfold candidates
  simp only [List.mem_cons, List.mem_append, mem_candDiag, mem_candSwap]
  constructor
  · rintro (h | h | (h | h) | h)
    · exact Or.inl h
    · exact Or.inr (Or.inl h)
    · exact Or.inr (Or.inr (Or.inl h))
    · exact Or.inr (Or.inr (Or.inr (Or.inl h)))
    · exact Or.inr (Or.inr (Or.inr (Or.inr h)))
  · rintro (h | h | h | h | h)
    · exact Or.inl h
    · exact Or.inr (Or.inl h)
    · exact Or.inr (Or.inr (Or.inl (Or.inl h)))
    · exact Or.inr (Or.inr (Or.inl (Or.inr h)))
    · exact Or.inr (Or.inr (Or.inr h))

theorem candidates_ne_nil (fl x y x' y' dU dL dD dS) : candidates fl x y x' y' dU dL dD dS ≠ [] := by
  intro h
  have : ((dU + 1, EOp.delete) : Nat × EOp) ∈ candidates fl x y x' y' dU dL dD dS := mem_candidates.mpr (Or.inl rfl)
  rw [h] at this
  simp at this

end Tu

namespace Tu

theorem osaR_nil_left (fl : EFlags) (bs : List (List Nat)) : osaR fl [] bs = bs.length := by
  rw [osaR]

theorem osaR_nil_right (fl : EFlags) (as : List (List Nat)) : osaR fl as [] = as.length := by
  cases as with
  | nil => rw [osaR]
  | cons x as => rw [osaR]; rfl

theorem osaR_cons (fl : EFlags) (x y : List Nat) (as bs : List (List Nat)) :
    osaR fl (x :: as) (y :: bs) =
      (minByFst (candidates fl x y as.head? bs.head?
        (osaR fl as (y :: bs)) (osaR fl (x :: as) bs) (osaR fl as bs) (osaR fl as.tail bs.tail))).1 := by
  rw [osaR]

/-- the value of the recurrence is a lower bound for every script … -/
theorem osa_min {fl : EFlags} {as bs : List (List Nat)} {n : Nat} (h : Align fl as bs n) : osaR fl as bs ≤ n := by
  induction h with
  | nil => simp [osaR_nil_left]
  | @del x as bs n _ ih =>
    cases bs with
    | nil => simpa [osaR_nil_right] using ih
    | cons y bs =>
      rw [osaR_cons]
      have := minByFst_le (mem_candidates.mpr (Or.inl rfl) :
        ((osaR fl as (y :: bs) + 1, EOp.delete) : Nat × EOp) ∈ candidates fl x y as.head? bs.head?
          (osaR fl as (y :: bs)) (osaR fl (x :: as) bs) (osaR fl as bs) (osaR fl as.tail bs.tail))
      simp at this; omega
  | @ins y as bs n _ ih =>
    cases as with
    | nil => simpa [osaR_nil_left] using ih
    | cons x as =>
      rw [osaR_cons]
      have := minByFst_le (mem_candidates.mpr (Or.inr (Or.inl rfl)) :
        ((osaR fl (x :: as) bs + 1, EOp.insert) : Nat × EOp) ∈ candidates fl x y as.head? bs.head?
          (osaR fl as (y :: bs)) (osaR fl (x :: as) bs) (osaR fl as bs) (osaR fl as.tail bs.tail))
      simp at this; omega
  | @keep x as bs n _ ih =>
    rw [osaR_cons]
    have := minByFst_le (mem_candidates.mpr (Or.inr (Or.inr (Or.inl ⟨rfl, rfl⟩))) :
      ((osaR fl as bs, EOp.keep) : Nat × EOp) ∈ candidates fl x x as.head? bs.head?
        (osaR fl as (x :: bs)) (osaR fl (x :: as) bs) (osaR fl as bs) (osaR fl as.tail bs.tail))
    simp at this; omega
  | @rep x y as bs n hne hr _ ih =>
    rw [osaR_cons]
    have := minByFst_le (mem_candidates.mpr (Or.inr (Or.inr (Or.inr (Or.inl ⟨hne, hr, rfl⟩)))) :
      ((osaR fl as bs + 1, EOp.replace) : Nat × EOp) ∈ candidates fl x y as.head? bs.head?
        (osaR fl as (y :: bs)) (osaR fl (x :: as) bs) (osaR fl as bs) (osaR fl as.tail bs.tail))
    simp at this; omega
  | @swp x x' as bs n hs hr _ ih =>
    rw [osaR_cons]
    simp only [List.head?_cons, List.tail_cons]
    have := minByFst_le (mem_candidates.mpr (Or.inr (Or.inr (Or.inr (Or.inr ⟨x', x, rfl, rfl, hs, rfl, rfl, hr, rfl⟩)))) :
      ((osaR fl as bs + 1, EOp.swap) : Nat × EOp) ∈ candidates fl x x' (some x') (some x)
        (osaR fl (x' :: as) (x' :: x :: bs)) (osaR fl (x :: x' :: as) (x :: bs)) (osaR fl (x' :: as) (x :: bs))
        (osaR fl as bs))
    simp only at this; omega

theorem align_ins_all (fl : EFlags) (bs : List (List Nat)) : Align fl [] bs bs.length := by
  induction bs with
  | nil => exact .nil
  | cons y bs ih => exact .ins y ih

theorem align_del_all (fl : EFlags) (as : List (List Nat)) : Align fl as [] as.length := by
  induction as with
  | nil => exact .nil
  | cons x as ih => exact .del x ih

/-- … and is attained by one: the recurrence computes the minimum cost over all scripts -/
theorem osa_attained (fl : EFlags) : ∀ (k : Nat) (as bs : List (List Nat)), as.length + bs.length = k →
    Align fl as bs (osaR fl as bs) := by
  intro k
  induction k using Nat.strongRecOn with
  | _ k ih =>
    intro as bs hk
    cases as with
    | nil => rw [osaR_nil_left]; exact align_ins_all fl bs
    | cons x as =>
      cases bs with
      | nil => rw [osaR_nil_right]; exact align_del_all fl (x :: as)
      | cons y bs =>
        rw [osaR_cons]
        have hmem := minByFst_mem (candidates_ne_nil fl x y as.head? bs.head?
          (osaR fl as (y :: bs)) (osaR fl (x :: as) bs) (osaR fl as bs) (osaR fl as.tail bs.tail))
        simp only [List.length_cons] at hk
        rcases mem_candidates.mp hmem with h | h | ⟨rfl, h⟩ | ⟨hne, hr, h⟩ | ⟨u, v, hu, hv, hs, rfl, rfl, hr, h⟩
        · rw [h]; exact .del x (ih _ (by simp only [List.length_cons]; omega) as (y :: bs) rfl)
        · rw [h]; exact .ins y (ih _ (by simp only [List.length_cons]; omega) (x :: as) bs rfl)
        · rw [h]; exact .keep x (ih _ (by omega) as bs rfl)
        · rw [h]; exact .rep hne hr (ih _ (by omega) as bs rfl)
        · rw [h]
          cases as with
          | nil => simp at hu
          | cons x' as' =>
            cases bs with
            | nil => simp at hv
            | cons y' bs' =>
              simp at hu hv; subst hu; subst hv
              exact .swp hs hr (ih _ (by simp at hk ⊢; omega) as' bs' rfl)

end Tu
