/-
  Lemmas for the calibration clauses of the spelling counts (C13): an unchanged prediction has no true
  positive; a prediction equal to the target has no false positive / false negative.
  * `groupLoop_full`: when every predicted-word index below the final `pred_idx` is in the matching set, every
    group is `ok` and the loop returns every input-word index it walked over;
  * `matchAccept_self_full`: an admissible matching of a word sequence with itself touches every index;
  * the number of `word_boundaries` words versus the number of `split_ascii_whitespace` words.
-/
import TuModel.Model.Metrics
import TuModel.Lemmas.MetricsL
import TuModel.Lemmas.TextL
import TuModel.Lemmas.MatchAcceptL
import TuModel.Props.C18
namespace Tu

/-! ## the complement of a set does not meet the set -/

theorem compl_inter_nil (n : Nat) (r : List Nat) :
    ((List.range n).filter (fun j => !r.contains j)).filter (fun x => r.contains x) = [] := by
  rw [List.filter_eq_nil_iff]
  intro a ha
  rw [List.mem_filter] at ha
  simpa using ha.2

/-! ## the grouping loop when every predicted word is matched -/

/-- the inner loop only advances, only adds to the insertion total, keeps the collected words and collects every
word index it steps over -/
theorem ext_mono (merged : List Nat) (inserted : Nat → Nat) :
    ∀ (f i : Nat) (mw : List Nat) (tot i' : Nat) (mw' : List Nat) (tot' : Nat),
      groupLoop.ext merged inserted f i mw tot = (i', mw', tot') →
      i ≤ i' ∧ tot ≤ tot' ∧ (∀ x ∈ mw, x ∈ mw') ∧ (∀ x, i < x → x ≤ i' → x ∈ mw') := by
  intro f
  induction f with
  | zero =>
    intro i mw tot i' mw' tot' h
    rw [groupLoop.ext.eq_1] at h
    cases h
    exact ⟨Nat.le_refl _, Nat.le_refl _, fun x hx => hx, fun x h1 h2 => by omega⟩
  | succ f ih =>
    intro i mw tot i' mw' tot' h
    rw [groupLoop.ext.eq_2] at h
    split at h
    · obtain ⟨h1, h2, h3, h4⟩ := ih _ _ _ _ _ _ h
      refine ⟨by omega, by omega, fun x hx => h3 x (List.mem_cons_of_mem _ hx), ?_⟩
      intro x hx1 hx2
      by_cases hx : x = i + 1
      · subst hx; exact h3 _ List.mem_cons_self
      · exact h4 x (by omega) hx2
    · cases h
      exact ⟨Nat.le_refl _, Nat.le_refl _, fun x hx => hx, fun x h1 h2 => by omega⟩

/-- **every group is correct when every predicted word below the final `pred_idx` is matched**: `pred_idx` only
grows, so each group's predicted-word indices lie below the final value; the result then holds the words collected
so far and every input-word index from `inIdx` up to the final `input_idx` -/
theorem groupLoop_full (n : Nat) (merged : List Nat) (inserted : Nat → Nat) (matching : List Nat) :
    ∀ (fuel inIdx predIdx : Nat) (correct : List Nat) (a P : Nat) (c : List Nat),
      groupLoop n merged inserted matching fuel inIdx predIdx correct = some (a, P, c) →
      (∀ k, k < P → matching.contains k = true) →
      predIdx ≤ P ∧ inIdx ≤ a ∧ (∀ x ∈ correct, x ∈ c) ∧ (∀ x, inIdx ≤ x → x < a → x ∈ c) := by
  intro fuel
  induction fuel with
  | zero =>
    intro _ _ _ _ _ _ h
    rw [groupLoop.eq_1] at h
    cases h
  | succ fuel ih =>
    intro inIdx predIdx correct a P c h hM
    rw [groupLoop.eq_2] at h
    by_cases hlt : inIdx < n
    · simp only [hlt, if_true] at h
      generalize he : groupLoop.ext merged inserted (merged.length + 1) inIdx [inIdx] (inserted inIdx) = r at h
      obtain ⟨i', mw, tot⟩ := r
      simp only [] at h
      obtain ⟨e1, _, e3, e4⟩ := ext_mono _ _ _ _ _ _ _ _ _ he
      obtain ⟨g1, g2, g3, g4⟩ := ih _ _ _ _ _ _ h hM
      have hok : ((List.range (tot + 1)).all fun k => matching.contains (predIdx + k)) = true := by
        rw [List.all_eq_true]
        intro k hk
        rw [List.mem_range] at hk
        exact hM _ (by omega)
      rw [hok] at g3
      simp only [if_true] at g3
      refine ⟨by omega, by omega, fun x hx => g3 x (List.mem_append_right _ hx), ?_⟩
      intro x hx1 hx2
      by_cases hx : x ≤ i'
      · apply g3
        apply List.mem_append_left
        by_cases hxi : x = inIdx
        · subst hxi; exact e3 _ (List.mem_singleton.mpr rfl)
        · exact e4 x (by omega) hx
      · exact g4 x (by omega) hx2
    · simp only [hlt, if_false] at h
      cases h
      exact ⟨Nat.le_refl _, Nat.le_refl _, fun x hx => hx, fun x h1 h2 => by omega⟩

/-- `_group_words` (any script): when every predicted-word index is in the matching set, every input word is
reported correct -/
theorem groupWordsWith_full (ops : List (EKind × Nat × Nat)) (input pred : List (List Nat))
    (matching correct : List Nat) (h : groupWordsWith ops input pred matching = some correct)
    (hM : ∀ k, k < (wordBoundaries pred).length → matching.contains k = true) :
    ∀ x, x < (wordBoundaries input).length → x ∈ correct := by
  unfold groupWordsWith at h
  simp only [] at h
  split at h
  · cases h
    intro x hx
    exact List.mem_range.mpr hx
  · split at h
    · rename_i h2
      intro x hx
      rw [List.isEmpty_iff] at h2
      rw [h2] at hx
      exact absurd hx (Nat.not_lt_zero _)
    · split at h
      · rename_i a P c hg
        split at h
        · rename_i hc
          cases h
          simp only [Bool.and_eq_true, beq_iff_eq] at hc
          obtain ⟨rfl, rfl⟩ := hc
          obtain ⟨_, _, _, g4⟩ := groupLoop_full _ _ _ _ _ _ _ _ _ _ _ hg hM
          intro x hx
          exact g4 x (Nat.zero_le _) hx
        · cases h
      · cases h

/-! ## an admissible matching of a word sequence with itself is total -/

theorem matchAccept_self_full (w : List (List Nat)) (m : List (Nat × Nat)) (h : matchAccept w w m = true) :
    (∀ k, k < w.length → k ∈ m.map Prod.fst) ∧ (∀ k, k < w.length → k ∈ m.map Prod.snd) := by
  obtain ⟨hinc, hb, _⟩ := (matchAccept_iff w w m).mp h
  have hlen := C18.matchAccept_length w w m h
  have hup := C18.lcs_upper w w w (List.Sublist.refl _) (List.Sublist.refl _)
  constructor
  · have hp : (m.map Prod.fst).Pairwise (· < ·) := by
      rw [List.pairwise_map]; exact hinc.imp (fun h => h.1)
    have hbd : ∀ x ∈ m.map Prod.fst, 0 ≤ x ∧ x < w.length := by
      intro x hx
      rw [List.mem_map] at hx
      obtain ⟨q, hq, rfl⟩ := hx
      exact ⟨Nat.zero_le _, (hb q hq).1⟩
    intro k hk
    exact (incr_range_full _ 0 w.length hp hbd).2 (by rw [List.length_map]; omega) k (Nat.zero_le _) hk
  · have hp : (m.map Prod.snd).Pairwise (· < ·) := by
      rw [List.pairwise_map]; exact hinc.imp (fun h => h.2)
    have hbd : ∀ x ∈ m.map Prod.snd, 0 ≤ x ∧ x < w.length := by
      intro x hx
      rw [List.mem_map] at hx
      obtain ⟨q, hq, rfl⟩ := hx
      exact ⟨Nat.zero_le _, (hb q hq).2.1⟩
    intro k hk
    exact (incr_range_full _ 0 w.length hp hbd).2 (by rw [List.length_map]; omega) k (Nat.zero_le _) hk

/-- hence it is the identity matching -/
theorem matchAccept_self_eq (w : List (List Nat)) (m : List (Nat × Nat)) (h : matchAccept w w m = true) :
    m = (List.range w.length).map (fun k => (k, k)) := by
  obtain ⟨hinc, hb, _⟩ := (matchAccept_iff w w m).mp h
  have hlen := C18.matchAccept_length w w m h
  have hup := C18.lcs_upper w w w (List.Sublist.refl _) (List.Sublist.refl _)
  -- a strictly increasing list in `[lo, n)` of length `n - lo` is `lo, lo+1, …`
  have key : ∀ (l : List (Nat × Nat)) (lo n : Nat), l.Pairwise (fun p q => p.1 < q.1 ∧ p.2 < q.2) →
      (∀ p ∈ l, lo ≤ p.1 ∧ p.1 < n ∧ lo ≤ p.2 ∧ p.2 < n) → n ≤ l.length + lo →
      l = (List.range' lo (n - lo)).map (fun k => (k, k)) := by
    intro l
    induction l with
    | nil =>
      intro lo n _ _ hn
      have : n - lo = 0 := by simp at hn; omega
      rw [this]; rfl
    | cons p ps ih =>
      intro lo n hp hbd hn
      rw [List.pairwise_cons] at hp
      have hpb := hbd p List.mem_cons_self
      have hps1 : (ps.map Prod.fst).Pairwise (· < ·) := by
        rw [List.pairwise_map]; exact hp.2.imp (fun h => h.1)
      have hps2 : (ps.map Prod.snd).Pairwise (· < ·) := by
        rw [List.pairwise_map]; exact hp.2.imp (fun h => h.2)
      have c1 := (incr_range_full (ps.map Prod.fst) (p.1 + 1) n hps1 (by
        intro x hx
        rw [List.mem_map] at hx
        obtain ⟨q, hq, rfl⟩ := hx
        exact ⟨(hp.1 q hq).1, (hbd q (List.mem_cons_of_mem _ hq)).2.1⟩)).1 (by omega)
      have c2 := (incr_range_full (ps.map Prod.snd) (p.2 + 1) n hps2 (by
        intro x hx
        rw [List.mem_map] at hx
        obtain ⟨q, hq, rfl⟩ := hx
        exact ⟨(hp.1 q hq).2, (hbd q (List.mem_cons_of_mem _ hq)).2.2.2⟩)).1 (by omega)
      simp only [List.length_map] at c1 c2
      simp only [List.length_cons] at hn
      have e1 : p.1 = lo := by omega
      have e2 : p.2 = lo := by omega
      have hrec := ih (lo + 1) n hp.2 (by
        intro q hq
        have := hp.1 q hq
        have := hbd q (List.mem_cons_of_mem _ hq)
        omega) (by omega)
      have hd : n - lo = (n - (lo + 1)) + 1 := by omega
      rw [hd, List.range'_succ, List.map_cons, ← hrec]
      congr 1
      exact Prod.ext e1 e2
  have := key m 0 w.length hinc (by
    intro p hp
    exact ⟨Nat.zero_le _, (hb p hp).1, Nat.zero_le _, (hb p hp).2.1⟩) (by omega)
  rw [this, Nat.sub_zero, List.range_eq_range']

/-! ## number of words: `word_boundaries` versus `split_ascii_whitespace` -/

/-- number of words of a code-point string; the flag says whether a word is being read -/
def nwCp : List Nat → Bool → Nat
  | [], b => if b then 1 else 0
  | c :: cs, b => if isAsciiWs c then (if b then 1 else 0) + nwCp cs false else nwCp cs true

/-- number of words of a cluster sequence; the flag says whether a word is being read -/
def nwCl : List (List Nat) → Bool → Nat
  | [], b => if b then 1 else 0
  | c :: cs, b => if isWsCl c then (if b then 1 else 0) + nwCl cs false else nwCl cs true

theorem splitAsciiWsAux_length (s : List Nat) : ∀ cur : List Nat,
    (splitAsciiWsAux s cur).length = nwCp s (!cur.isEmpty) := by
  induction s with
  | nil =>
    intro cur
    unfold splitAsciiWsAux nwCp
    cases cur <;> simp
  | cons c cs ih =>
    intro cur
    unfold splitAsciiWsAux
    rw [nwCp]
    by_cases hc : isAsciiWs c = true
    · simp only [hc, if_true]
      cases cur with
      | nil => simp [ih]
      | cons x xs => simp [ih]; omega
    · simp only [hc, Bool.false_eq_true, if_false]
      rw [ih]; simp

theorem splitAsciiWs_length (s : List Nat) : (splitAsciiWs s).length = nwCp s false := by
  unfold splitAsciiWs
  rw [splitAsciiWsAux_length]; rfl

theorem wbAux_length (cs : List (List Nat)) : ∀ (idx : Nat) (start : Option Nat),
    (∀ st, start = some st → st < idx) → (wbAux cs idx start).length = nwCl cs start.isSome := by
  induction cs with
  | nil =>
    intro idx start hs
    cases start with
    | none => simp [wbAux, nwCl]
    | some st => simp [wbAux, nwCl, hs st rfl]
  | cons c cs ih =>
    intro idx start hs
    rw [nwCl]
    cases hw : isWsCl c with
    | true =>
      cases start with
      | none =>
        rw [wbAux.eq_5 _ _ _ _ (by simp) (by simp [hw])]
        rw [ih (idx + 1) none (by simp)]
        simp
      | some st =>
        rw [wbAux.eq_3 _ _ _ _ hw, List.length_cons, ih (idx + 1) none (by simp)]
        simp; omega
    | false =>
      cases start with
      | none =>
        rw [wbAux.eq_4 _ _ _ hw, ih (idx + 1) (some idx) (by intro st h; cases h; omega)]
        simp
      | some st =>
        rw [wbAux.eq_5 _ _ _ _ (by simp [hw]) (by simp)]
        rw [ih (idx + 1) (some st) (by intro s h; cases h; have := hs st rfl; omega)]
        simp

theorem wordBoundaries_length_eq (s : List (List Nat)) : (wordBoundaries s).length = nwCl s false := by
  unfold wordBoundaries
  rw [wbAux_length s 0 none (by simp)]; rfl

theorem isWsCp_of_isAsciiWs {k : Nat} (h : isAsciiWs k = true) : isWsCp k = true := by
  simp only [isAsciiWs, Bool.or_eq_true, beq_iff_eq] at h
  rcases h with (((rfl | rfl) | rfl) | rfl) | rfl <;> decide

theorem nwCp_true_le (s : List Nat) : nwCp s true ≤ nwCp s false + 1 ∧ nwCp s false ≤ nwCp s true := by
  cases s with
  | nil => simp [nwCp]
  | cons c cs =>
    rw [nwCp, nwCp]
    split <;> simp <;> omega

/-- code points in front of a text never lower the word count of "a word is being read" -/
theorem nwCp_append_ge (rest : List Nat) : ∀ c : List Nat,
    nwCp rest true ≤ nwCp (c ++ rest) true ∧ nwCp rest true ≤ nwCp (c ++ rest) false + 1 := by
  intro c
  induction c with
  | nil => exact ⟨Nat.le_refl _, (nwCp_true_le rest).1⟩
  | cons k d ih =>
    rw [List.cons_append, nwCp, nwCp]
    split
    · simp only [if_true, Bool.false_eq_true, if_false]
      omega
    · omega

/-- a cluster holding a code point that is not ASCII white space starts (or continues) a word -/
theorem nwCp_cluster_ge (rest : List Nat) : ∀ (c : List Nat) (b : Bool), (∃ k ∈ c, isAsciiWs k = false) →
    nwCp rest true ≤ nwCp (c ++ rest) b := by
  intro c
  induction c with
  | nil => intro b h; obtain ⟨k, hk, _⟩ := h; simp at hk
  | cons k d ih =>
    intro b h
    rw [List.cons_append, nwCp]
    by_cases hk : isAsciiWs k = true
    · simp only [hk, if_true]
      have hd : ∃ k ∈ d, isAsciiWs k = false := by
        obtain ⟨x, hx, hxw⟩ := h
        rcases List.mem_cons.mp hx with rfl | hx
        · rw [hk] at hxw; cases hxw
        · exact ⟨x, hx, hxw⟩
      have := ih false hd
      omega
    · simp only [hk, Bool.false_eq_true, if_false]
      exact (nwCp_append_ge rest d).1

/-- a non-empty cluster without ASCII white space: exactly "a word is being read" -/
theorem nwCp_cluster_eq (rest : List Nat) : ∀ (c : List Nat) (b : Bool), c ≠ [] → (∀ k ∈ c, isAsciiWs k = false) →
    nwCp (c ++ rest) b = nwCp rest true := by
  intro c
  induction c with
  | nil => intro b h; exact absurd rfl h
  | cons k d ih =>
    intro b _ h
    rw [List.cons_append, nwCp]
    have hk := h k List.mem_cons_self
    simp only [hk, Bool.false_eq_true, if_false]
    cases d with
    | nil => rfl
    | cons k' d' => exact ih true (by simp) (fun x hx => h x (List.mem_cons_of_mem _ hx))

/-- every white-space cluster is the single space -/
def WsIsSp (s : List (List Nat)) : Prop := ∀ c ∈ s, isWsCl c = true → c = sp

/-- every cluster is the single space or a non-empty cluster without white-space code points -/
def Plain (s : List (List Nat)) : Prop := ∀ c ∈ s, c = sp ∨ (c ≠ [] ∧ ∀ k ∈ c, isWsCp k = false)

theorem wsIsSp_of_cleanSt (s : List (List Nat)) : ∀ st : CSt, cleanSt st s = true → WsIsSp s := by
  induction s with
  | nil => intro _ _ c hc; simp at hc
  | cons d ds ih =>
    intro st h c hc hw
    rw [cleanSt] at h
    rcases List.mem_cons.mp hc with rfl | hc
    · simp only [hw, if_true, Bool.and_eq_true, beq_iff_eq] at h
      exact h.1.1
    · split at h
      · simp only [Bool.and_eq_true] at h
        exact ih _ h.2 c hc hw
      · exact ih _ h c hc hw

theorem wsIsSp_of_clean {s : List (List Nat)} (h : CleanB s = true) : WsIsSp s :=
  wsIsSp_of_cleanSt s .start h

theorem plain_of_clean_unmixed {s : List (List Nat)} (hc : CleanB s = true) (hu : unmixed s = true) : Plain s := by
  intro c hcs
  have hw := wsIsSp_of_clean hc c hcs
  simp only [unmixed, List.all_eq_true] at hu
  have := hu c hcs
  simp only [Bool.and_eq_true, Bool.or_eq_true, Bool.not_eq_true', List.isEmpty_eq_false_iff,
    List.all_eq_true] at this
  rcases this.2 with h | h
  · exact Or.inl (hw h)
  · exact Or.inr ⟨this.1, h⟩

/-- on a text whose white-space clusters are single spaces, `split_ascii_whitespace` finds at least the words of
`word_boundaries` -/
theorem nwCl_le_nwCp (s : List (List Nat)) (h : WsIsSp s) : ∀ b, nwCl s b ≤ nwCp s.flatten b := by
  induction s with
  | nil => intro b; simp [nwCl, nwCp]
  | cons c cs ih =>
    intro b
    have hcs : WsIsSp cs := fun d hd => h d (List.mem_cons_of_mem _ hd)
    rw [nwCl, List.flatten_cons]
    cases hw : isWsCl c with
    | true =>
      have := h c List.mem_cons_self hw
      subst this
      have e : nwCp (sp ++ cs.flatten) b = (if b then 1 else 0) + nwCp cs.flatten false := by
        simp [sp, nwCp, isAsciiWs]
      rw [e]
      simp only [if_true]
      have := ih hcs false
      omega
    | false =>
      simp only [Bool.false_eq_true, if_false]
      have hk : ∃ k ∈ c, isAsciiWs k = false := by
        simp only [isWsCl, List.all_eq_false] at hw
        obtain ⟨k, hk, hkw⟩ := hw
        refine ⟨k, hk, ?_⟩
        cases ha : isAsciiWs k with
        | false => rfl
        | true => exact absurd (isWsCp_of_isAsciiWs ha) hkw
      exact Nat.le_trans (ih hcs true) (nwCp_cluster_ge _ c b hk)

/-- and on a plain text the two word counts agree -/
theorem nwCl_eq_nwCp (s : List (List Nat)) (h : Plain s) : ∀ b, nwCp s.flatten b = nwCl s b := by
  induction s with
  | nil => intro b; simp [nwCl, nwCp]
  | cons c cs ih =>
    intro b
    have hcs : Plain cs := fun d hd => h d (List.mem_cons_of_mem _ hd)
    rw [nwCl, List.flatten_cons]
    rcases h c List.mem_cons_self with rfl | ⟨hne, hall⟩
    · have e : nwCp (sp ++ cs.flatten) b = (if b then 1 else 0) + nwCp cs.flatten false := by
        simp [sp, nwCp, isAsciiWs]
      rw [e, isWsCl_sp, ih hcs false]
      simp
    · have hw : isWsCl c = false := by
        cases c with
        | nil => exact absurd rfl hne
        | cons k d => simp [isWsCl, hall k List.mem_cons_self]
      rw [hw]
      simp only [Bool.false_eq_true, if_false]
      rw [nwCp_cluster_eq _ c b hne (by
        intro k hk
        cases ha : isAsciiWs k with
        | false => rfl
        | true => have := isWsCp_of_isAsciiWs ha; rw [hall k hk] at this; cases this)]
      exact ih hcs true

/-- whitespace-clean text: `word_boundaries` finds at most the words of `split_ascii_whitespace` -/
theorem wordBoundaries_length_le {s : List (List Nat)} (h : CleanB s = true) :
    (wordBoundaries s).length ≤ (splitAsciiWs s.flatten).length := by
  rw [wordBoundaries_length_eq, splitAsciiWs_length]
  exact nwCl_le_nwCp s (wsIsSp_of_clean h) false

/-- whitespace-clean text without mixed clusters: the two word counts agree -/
theorem wordBoundaries_length_split {s : List (List Nat)} (h : CleanB s = true) (hu : unmixed s = true) :
    (wordBoundaries s).length = (splitAsciiWs s.flatten).length := by
  rw [wordBoundaries_length_eq, splitAsciiWs_length]
  exact (nwCl_eq_nwCp s (plain_of_clean_unmixed h hu) false).symm

/-! ## the spelling counts -/

/-- no false negative whenever the prediction/target matching touches every target word -/
theorem spellCountsWith_fn_zero (i p t : List (List Nat)) (sub : SpellSub) (c : Counts)
    (h : spellCountsWith i p t sub = some c)
    (hM : ∀ k, k < (splitAsciiWs t.flatten).length → k ∈ sub.mpt.map Prod.snd) : c.fn = 0 := by
  unfold spellCountsWith at h
  simp only [] at h
  split at h
  · cases h
  · simp only [Option.some.injEq] at h
    subst h
    simp only [List.length_eq_zero_iff, List.filter_eq_nil_iff]
    intro a ha
    have hlt : a < (splitAsciiWs t.flatten).length := by
      simp only [editedWords, List.mem_filter, List.mem_range] at ha
      exact ha.1
    simp [List.contains_eq_mem, hM a hlt]

/-- no false positive whenever the prediction/target matching touches every predicted word (and the input has no
more `split_ascii_whitespace` words than `word_boundaries` words) -/
theorem spellCountsWith_fp_zero (i p t : List (List Nat)) (sub : SpellSub) (c : Counts)
    (h : spellCountsWith i p t sub = some c)
    (hM : ∀ k, k < (wordBoundaries p).length → k ∈ sub.mpt.map Prod.fst)
    (hlen : (splitAsciiWs i.flatten).length ≤ (wordBoundaries i).length) : c.fp = 0 := by
  unfold spellCountsWith at h
  simp only [] at h
  split at h
  · cases h
  · rename_i correct hg
    simp only [Option.some.injEq] at h
    subst h
    simp only [List.length_eq_zero_iff, List.filter_eq_nil_iff]
    intro a ha
    have hlt : a < (splitAsciiWs i.flatten).length := by
      simp only [editedWords, List.mem_filter, List.mem_range] at ha
      exact ha.1
    have := groupWordsWith_full _ _ _ _ _ hg
      (fun k hk => by rw [List.contains_eq_mem]; exact decide_eq_true (hM k hk)) a (by omega)
    simp [List.contains_eq_mem, this]

/-- no true positive when the input/target and prediction/target matchings are the same list -/
theorem spellCountsWith_tp_zero (i p t : List (List Nat)) (sub : SpellSub) (c : Counts)
    (h : spellCountsWith i p t sub = some c) (hm : sub.mit = sub.mpt) : c.tp = 0 := by
  unfold spellCountsWith at h
  simp only [] at h
  split at h
  · cases h
  · simp only [Option.some.injEq] at h
    subst h
    simp only [editedWords, hm, compl_inter_nil, List.length_nil]

/-- a defined `spellCounts` is `spellCountsWith` on the model's own sub-results -/
theorem spellCounts_some_with (i p t : List (List Nat)) (c : Counts) (h : spellCounts i p t = some c) :
    ∃ mit mip mpt ops,
      matchWords (splitAsciiWs i.flatten) (splitAsciiWs t.flatten) = some mit ∧
      matchWords (splitAsciiWs i.flatten) (splitAsciiWs p.flatten) = some mip ∧
      matchWords (splitAsciiWs p.flatten) (splitAsciiWs t.flatten) = some mpt ∧
      editOperations { swap := false, sid := true } i p = some ops ∧
      spellCountsWith i p t { mit := mit, mip := mip, mpt := mpt, ops := ops } = some c := by
  unfold spellCounts at h
  simp only [] at h
  split at h
  · rename_i mit mip mpt h1 h2 h3
    split at h
    · cases h
    · rename_i correct hg
      unfold groupWords at hg
      split at hg
      · cases hg
      · rename_i ops hops
        refine ⟨mit, mip, mpt, ops, h1, h2, h3, hops, ?_⟩
        unfold spellCountsWith groupWordsWith
        simp only []
        simp only [] at hg
        rw [hg]
        exact h
  · cases h

end Tu
