/-
  Helper lemmas for C13 (metrics): arithmetic of the pair-rationals `Q`, folds of `Q.add`,
  filter / set-comparison counting, the whitespace operation sets, strictly increasing index lists.
-/
import TuModel.Model.Metrics
import TuModel.Props.C10
namespace Tu

/-- a well-formed value in [0,1]: positive denominator and numerator ≤ denominator -/
def Q.unit (q : Q) : Prop := 0 < q.den ∧ q.num ≤ q.den
/-- a well-formed value equal to 1 -/
def Q.isOne (q : Q) : Prop := 0 < q.den ∧ q.num = q.den
/-- a well-formed value equal to 0 -/
def Q.isZero (q : Q) : Prop := 0 < q.den ∧ q.num = 0

instance (q : Q) : Decidable q.unit := inferInstanceAs (Decidable (_ ∧ _))
instance (q : Q) : Decidable q.isOne := inferInstanceAs (Decidable (_ ∧ _))
instance (q : Q) : Decidable q.isZero := inferInstanceAs (Decidable (_ ∧ _))

theorem Q.isOne.unit {q : Q} (h : q.isOne) : q.unit := ⟨h.1, Nat.le_of_eq h.2⟩
theorem Q.isZero.unit {q : Q} (h : q.isZero) : q.unit := ⟨h.1, by rw [h.2]; exact Nat.zero_le _⟩
theorem Q.one_isOne : Q.one.isOne := ⟨Nat.one_pos, rfl⟩
theorem Q.zero_isZero : Q.zero.isZero := ⟨Nat.one_pos, rfl⟩
theorem Q.one_unit : Q.one.unit := Q.one_isOne.unit
theorem Q.zero_unit : Q.zero.unit := Q.zero_isZero.unit

/-! ### the F-beta arithmetic -/

/-- the numerator/denominator inequality behind `F ≤ 1` -/
theorem fbeta_num_le (a b t P R : Nat) (hP : t ≤ P) (hR : t ≤ R) :
    (a + b) * (t * t) ≤ b * t * R + t * (a * P) := by
  have h1 : a * (t * t) ≤ t * (a * P) := by
    have : a * (t * t) = t * (a * t) := by grind
    rw [this]
    exact Nat.mul_le_mul_left _ (Nat.mul_le_mul_left _ hP)
  have h2 : b * (t * t) ≤ b * t * R := by
    have : b * (t * t) = b * t * t := by grind
    rw [this]
    exact Nat.mul_le_mul_left _ hR
  rw [Nat.add_mul]
  omega

/-- explicit form of the three components of `f1` for `tp > 0` -/
theorem f1_pos (tp fp fn bn bd : Nat) (htp : 0 < tp) :
    f1 tp fp fn bn bd =
      (⟨((1 * (bd * bd) + bn * bn * 1) * (tp * tp)) * (bd * bd * max (tp + fp) 1 * max (tp + fn) 1),
        (1 * (bd * bd) * (max (tp + fp) 1 * max (tp + fn) 1)) *
          (bn * bn * tp * max (tp + fn) 1 + tp * (bd * bd * max (tp + fp) 1))⟩,
       ⟨tp, max (tp + fp) 1⟩, ⟨tp, max (tp + fn) 1⟩) := by
  simp [f1, htp, Q.div, Q.mul, Q.add, Q.one]

theorem f1_zero (fp fn bn bd : Nat) :
    f1 0 fp fn bn bd = (Q.zero, ⟨0, max (0 + fp) 1⟩, ⟨0, max (0 + fn) 1⟩) := by
  simp [f1]

theorem f1_prec_unit (tp fp fn bn bd : Nat) : (f1 tp fp fn bn bd).2.1.unit := by
  simp only [f1, Q.unit]; omega
theorem f1_rec_unit (tp fp fn bn bd : Nat) : (f1 tp fp fn bn bd).2.2.unit := by
  simp only [f1, Q.unit]; omega

theorem f1_f_unit (tp fp fn bn bd : Nat) (hbd : 0 < bd) : (f1 tp fp fn bn bd).1.unit := by
  rcases Nat.eq_zero_or_pos tp with rfl | htp
  · rw [f1_zero]; exact Q.zero_unit
  · rw [f1_pos _ _ _ _ _ htp]
    simp only [Q.unit]
    have hP : tp ≤ max (tp + fp) 1 := by omega
    have hR : tp ≤ max (tp + fn) 1 := by omega
    have hP0 : 0 < max (tp + fp) 1 := by omega
    have hR0 : 0 < max (tp + fn) 1 := by omega
    generalize max (tp + fp) 1 = P at *
    generalize max (tp + fn) 1 = R at *
    have hb : 0 < bd * bd := Nat.mul_pos hbd hbd
    constructor
    · apply Nat.mul_pos
      · exact Nat.mul_pos (by omega) (Nat.mul_pos hP0 hR0)
      · have : 0 < tp * (bd * bd * P) := Nat.mul_pos htp (Nat.mul_pos hb hP0)
        omega
    · have key := fbeta_num_le (bd * bd) (bn * bn) tp P R hP hR
      have e1 : 1 * (bd * bd) * (P * R) = bd * bd * P * R := by grind
      rw [e1, Nat.mul_comm (bd * bd * P * R)]
      apply Nat.mul_le_mul_right
      simpa using key

/-! ### folds of `Q.add` -/

theorem Q.add_bound {a v : Q} {m : Nat} (ha : 0 < a.den ∧ a.num ≤ m * a.den) (hv : v.unit) :
    0 < (Q.add a v).den ∧ (Q.add a v).num ≤ (m + 1) * (Q.add a v).den := by
  simp only [Q.add]
  refine ⟨Nat.mul_pos ha.1 hv.1, ?_⟩
  have h1 : a.num * v.den ≤ m * a.den * v.den := Nat.mul_le_mul_right _ ha.2
  have h2 : v.num * a.den ≤ v.den * a.den := Nat.mul_le_mul_right _ hv.2
  have e : (m + 1) * (a.den * v.den) = m * a.den * v.den + v.den * a.den := by grind
  omega

/-- summing `k` values of `[0,1]` onto an accumulator bounded by `m` gives a value bounded by `m + k` -/
theorem foldl_add_bound {α : Type} (g : α → Q) (l : List α) (hl : ∀ x ∈ l, (g x).unit) :
    ∀ (a : Q) (m : Nat), 0 < a.den ∧ a.num ≤ m * a.den →
      0 < (l.foldl (fun a v => Q.add a (g v)) a).den ∧
      (l.foldl (fun a v => Q.add a (g v)) a).num ≤ (m + l.length) * (l.foldl (fun a v => Q.add a (g v)) a).den := by
  induction l with
  | nil => intro a m ha; simpa using ha
  | cons x xs ih =>
    intro a m ha
    have hx := hl x (by simp)
    have := ih (fun y hy => hl y (by simp [hy])) (Q.add a (g x)) (m + 1) (Q.add_bound ha hx)
    simp only [List.foldl_cons, List.length_cons]
    have e : m + (xs.length + 1) = m + 1 + xs.length := by omega
    rw [e]; exact this

/-- the mean of values in `[0,1]` is in `[0,1]` -/
theorem mean_unit {α : Type} (g : α → Q) (l : List α) (hl : ∀ x ∈ l, (g x).unit) (n : Nat)
    (hn : l.length ≤ n) (hn0 : 0 < n) :
    ((l.foldl (fun a v => Q.add a (g v)) Q.zero).divNat n).unit := by
  obtain ⟨h1, h2⟩ := foldl_add_bound g l hl Q.zero 0 ⟨Nat.one_pos, by simp [Q.zero]⟩
  simp only [Q.divNat, Q.unit]
  refine ⟨Nat.mul_pos h1 hn0, ?_⟩
  generalize (l.foldl (fun a v => Q.add a (g v)) Q.zero) = q at *
  have : (0 + l.length) * q.den ≤ n * q.den := Nat.mul_le_mul_right _ (by omega)
  rw [Nat.mul_comm q.den n]; omega

/-! ### counting with filters -/

theorem length_filter_add_not {α : Type} (p : α → Bool) (l : List α) :
    (l.filter p).length + (l.filter (fun x => !p x)).length = l.length := by
  induction l with
  | nil => rfl
  | cons x xs ih =>
    cases h : p x <;> simp [h] <;> omega

/-- for duplicate-free lists the two ways of counting the intersection agree -/
theorem length_inter_comm {α : Type} [BEq α] [LawfulBEq α] (g p : List α) (hg : g.Nodup) (hp : p.Nodup) :
    (g.filter (fun x => p.contains x)).length = (p.filter (fun x => g.contains x)).length := by
  apply List.Perm.length_eq
  rw [List.perm_ext_iff_of_nodup (List.Pairwise.filter _ hg) (List.Pairwise.filter _ hp)]
  intro a
  simp only [List.mem_filter, List.contains_eq_mem, decide_eq_true_eq]
  exact And.comm

theorem filter_not_contains_self {α : Type} [BEq α] [LawfulBEq α] (g : List α) :
    g.filter (fun x => !g.contains x) = [] := by
  rw [List.filter_eq_nil_iff]
  intro a ha
  simp [ha]

/-! ### whitespace operation sets -/

theorem wsOpSet_nodup (ops : List WsOp) (mode : Nat) : (wsOpSet ops mode).Nodup := by
  unfold wsOpSet
  have h0 : (ops.zipIdx).Pairwise (fun a b => a.2 ≠ b.2) := by
    have := List.nodup_range' (s := 0) (n := ops.length) 1
    rw [← List.zipIdx_map_snd, List.Nodup, List.pairwise_map] at this
    exact this
  rw [List.Nodup, List.pairwise_map]
  apply List.Pairwise.filter
  exact h0.imp (fun {a b} h hab => h (by
    have := congrArg Prod.fst hab
    simpa using this))

theorem wsOps_self (i : List (List Nat)) : wsOps i i = some (List.replicate i.length .keep) := by
  induction i with
  | nil => simp [wsOps]
  | cons c cs ih => rw [C10.wsOps_keep, ih]; simp [List.replicate_succ]

theorem wsOpSet_replicate_keep (n mode : Nat) : wsOpSet (List.replicate n .keep) mode = [] := by
  unfold wsOpSet
  rw [List.map_eq_nil_iff, List.filter_eq_nil_iff]
  rintro ⟨op, k⟩ h
  have := (List.mem_zipIdx h).2.2
  simp at this
  subst this
  simp

/-! ### counting pairs -/

theorem countTpFpFn_fold (l : List (Bool × Bool)) (a b c : Nat) :
    l.foldl (fun (x : Nat × Nat × Nat) (y : Bool × Bool) =>
      match x, y with
      | (tp, fp, fn), (p, t) =>
        match p, t with
        | true, true => (tp + 1, fp, fn)
        | true, false => (tp, fp + 1, fn)
        | false, true => (tp, fp, fn + 1)
        | _, _ => (tp, fp, fn)) (a, b, c) =
    (a + (l.filter (fun (p, t) => p && t)).length,
     b + (l.filter (fun (p, t) => p && !t)).length,
     c + (l.filter (fun (p, t) => !p && t)).length) := by
  induction l generalizing a b c with
  | nil => rfl
  | cons x xs ih =>
    obtain ⟨p, t⟩ := x
    cases p <;> cases t <;> simp only [List.foldl_cons] <;> rw [ih] <;> simp <;> omega

/-! ### strictly increasing index lists -/

/-- a strictly increasing list of naturals in `[lo, n)` has at most `n - lo` elements, and if it
has that many it contains every number of the interval -/
theorem incr_range_full (l : List Nat) : ∀ (lo n : Nat), l.Pairwise (· < ·) → (∀ x ∈ l, lo ≤ x ∧ x < n) →
    (lo ≤ n → l.length + lo ≤ n) ∧ (n ≤ l.length + lo → ∀ k, lo ≤ k → k < n → k ∈ l) := by
  induction l with
  | nil =>
    intro lo n _ _
    refine ⟨fun h => by simpa using h, ?_⟩
    intro h k h1 h2; simp at h; omega
  | cons x xs ih =>
    intro lo n hp hb
    rw [List.pairwise_cons] at hp
    have hx := hb x (by simp)
    obtain ⟨i1, i2⟩ := ih (x + 1) n hp.2 (fun y hy => ⟨hp.1 y hy, (hb y (by simp [hy])).2⟩)
    have i1' := i1 (by omega)
    refine ⟨fun _ => by simp only [List.length_cons]; omega, ?_⟩
    intro h k h1 h2
    simp only [List.length_cons] at h
    have hxl : x = lo := by omega
    by_cases hk : k = x
    · simp [hk]
    · exact List.mem_cons_of_mem _ (i2 (by omega) k (by omega) h2)

end Tu
