/-
  The sequential strategy of the `MultiTrainDataGenerator` model produces `seqSpec`.
-/
import TuModel.Lemmas.MultiGenL
namespace Tu.MultiGenL
open Tu

theorem drop_of_getD {α} (l : List α) (i : Nat) (d : α) (h : i < l.length) :
    l.drop i = l.getD i d :: l.drop (i + 1) := by
  rw [getD_eq_getElem _ _ _ h]; exact List.drop_eq_getElem_cons h

theorem drop_set_self {α} (l : List α) (i : Nat) (a : α) (h : i < l.length) :
    (l.set i a).drop i = a :: l.drop (i + 1) := by
  rw [List.drop_eq_getElem_cons (by simpa using h), List.getElem_set_self,
    List.drop_set_of_lt (Nat.lt_succ_self i)]

/-- `seqSpec` with tags starting at `i` -/
def seqFrom (i : Nat) (l : List (List Nat)) : List (Nat × Nat) :=
  (l.zipIdx i).flatMap (fun (s, k) => s.map (fun x => (x, k)))

theorem seqSpec_eq (srcs : List (List Nat)) : seqSpec srcs = seqFrom 0 srcs := rfl

theorem seqFrom_nil (i : Nat) : seqFrom i [] = [] := rfl

theorem seqFrom_cons (i : Nat) (s : List Nat) (l : List (List Nat)) :
    seqFrom i (s :: l) = s.map (fun x => (x, i)) ++ seqFrom (i + 1) l := by
  simp [seqFrom, List.zipIdx_cons, List.flatMap_cons]

theorem seqFrom_empty (i : Nat) (l : List (List Nat)) (h : ∀ s ∈ l, s = []) : seqFrom i l = [] := by
  induction l generalizing i with
  | nil => rfl
  | cons s l ih =>
    rw [seqFrom_cons, h s (List.mem_cons_self ..), ih _ (fun t ht => h t (List.mem_cons_of_mem _ ht))]
    rfl

theorem sim_seq :
    Sim .sequential (Inv .sequential) (fun g out => out = seqFrom g.idx (g.srcs.drop g.idx)) where
  len := fun g h => h.1.1
  cur := fun g h => h.1.2.1
  yld := by
    intro g x rest c hI hsrc
    refine ⟨Inv_yield _ g x rest c hI hsrc, ?_⟩
    intro out hout
    have hidx : g.idx < g.srcs.length := by rw [← hI.1.1]; exact hI.1.idx_lt
    rw [seq_yield_idx g rest c hI.1.2.1] at hout
    rw [hout]
    show (x, g.idx) :: seqFrom g.idx (List.drop g.idx (g.srcs.set g.idx rest)) = _
    rw [drop_set_self _ _ _ hidx, drop_of_getD g.srcs g.idx [] hidx, hsrc, seqFrom_cons, seqFrom_cons]
    rfl
  mrk := by
    intro g c hI hsrc hall
    refine ⟨Inv_mark _ g c hI hsrc hall, ?_⟩
    intro out hout
    have hidx : g.idx < g.srcs.length := by rw [← hI.1.1]; exact hI.1.idx_lt
    rw [(seq_mark_idx g c hI hall).1] at hout
    rw [hout, drop_of_getD g.srcs g.idx [] hidx, hsrc, seqFrom_cons]
    rfl
  stop := by
    intro g hI hsrc hall
    symm
    apply seqFrom_empty
    intro s hs
    have hs' := List.mem_of_mem_drop hs
    refine (all_empty_iff_getD g.srcs).mpr ?_ s hs'
    intro i
    by_cases hi : g.idx = i
    · subst hi; exact hsrc
    · apply hI.1.2.2
      rw [← marked_getD_ne g i hi]
      exact (all_id_iff _).mp hall i

theorem mgRun_sequential (srcs : List (List Nat)) (cs : List Nat) (hne : srcs ≠ []) :
    mgRun .sequential srcs cs = seqSpec srcs :=
  mgDrain_sim sim_seq (totalItems srcs + 1) (MG.init srcs) cs (Inv_init _ srcs hne)
    (Nat.lt_succ_self _)

end Tu.MultiGenL
