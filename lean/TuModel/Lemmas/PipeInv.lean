/-
  Preservation of the invariant `Inv` (Lemmas/PipeL.lean) by every action of the `Pipe` model.
-/
import TuModel.Lemmas.PipeL
namespace Tu

theorem inv_take {W : Nat} {src : Nat → Bool} {s s' : PState} {w : Nat} (h : Inv W src s) (hs : stepTake s w = some s') :
    Inv W src s' := by
  unfold stepTake at hs
  split at hs
  · rename_i hg
    obtain ⟨hw, hpc⟩ := hg
    have hw : w < W := h.hW ▸ hw
    have hitem : (s.pc w).item = none := by rw [hpc]; rfl
    split at hs
    · rename_i hlt
      injection hs with hs; subst hs
      have hsp : src s.pulls = true := by rw [← h.hsrc]; exact hlt
      have htl := h.turn_le
      exact {
        hW := h.hW, hsrc := h.hsrc
        turn_le := by dsimp only; omega
        held_ex := by
          dsimp only
          intro i h1 h2
          by_cases hi : i = s.next
          · exact ⟨w, hw, by subst hi; simp [PC.item]⟩
          · obtain ⟨u, hu, hui⟩ := h.held_ex i h1 (by omega)
            have huw : u ≠ w := by intro e; subst e; rw [hitem] at hui; cases hui
            exact ⟨u, hu, by rw [setPc_ne _ _ huw]; exact hui⟩
        held_rng := by
          dsimp only
          intro u i hu hui
          by_cases huw : u = w
          · subst huw; simp [PC.item] at hui; omega
          · rw [setPc_ne _ _ huw] at hui
            have := h.held_rng u i hu hui; omega
        held_uniq := by
          dsimp only
          intro u u' i hu hu' hui hui'
          by_cases huw : u = w <;> by_cases huw' : u' = w
          · omega
          · subst huw; rw [setPc_ne _ _ huw'] at hui'
            simp [PC.item] at hui; subst hui
            have := h.held_rng u' _ hu' hui'; omega
          · subst huw'; rw [setPc_ne _ _ huw] at hui
            simp [PC.item] at hui'; subst hui'
            have := h.held_rng u _ hu hui; omega
          · rw [setPc_ne _ _ huw] at hui; rw [setPc_ne _ _ huw'] at hui'
            exact h.held_uniq u u' i hu hu' hui hui'
        at_turn := by
          dsimp only
          intro u i hu hc
          by_cases huw : u = w
          · subst huw; simp at hc
          · rw [setPc_ne _ _ huw] at hc; exact h.at_turn u i hu hc
        count := by
          dsimp only
          have := sum_map_setPc PC.busy s.pc w W (.holding s.next) hw
          have := h.count
          rw [hpc] at *
          simp only [PC.busy] at *
          omega
        chan_le := h.chan_le
        fifo := h.fifo
        len_sent := by
          dsimp only
          intro hd u i ok hu hc
          by_cases huw : u = w
          · subst huw; simp at hc
          · rw [setPc_ne _ _ huw] at hc; exact h.len_sent hd u i ok hu hc
        len_turn := by
          dsimp only
          intro hd
          rcases h.len_turn hd with hl | ⟨u, ok, hu, hc⟩
          · exact Or.inl hl
          · have huw : u ≠ w := by intro e; subst e; rw [hpc] at hc; cases hc
            exact Or.inr ⟨u, ok, hu, by rw [setPc_ne _ _ huw]; exact hc⟩
        sent_false := by
          dsimp only
          intro u i hu hc
          by_cases huw : u = w
          · subst huw; simp at hc
          · rw [setPc_ne _ _ huw] at hc; exact h.sent_false u i hu hc
        calls_hi := by
          dsimp only
          intro i hi; exact h.calls_hi i (by omega)
        calls_hold := by
          dsimp only
          intro u i hu hc
          by_cases huw : u = w
          · subst huw; simp at hc; subst hc; exact h.calls_hi _ (Nat.le_refl _)
          · rw [setPc_ne _ _ huw] at hc; exact h.calls_hold u i hu hc
        calls_done := by
          dsimp only
          intro i hi hc
          by_cases hin : i = s.next
          · subst hin; have := hc w hw; simp at this
          · apply h.calls_done i (by omega)
            intro u hu
            by_cases huw : u = w
            · subst huw; rw [hpc]; simp
            · have := hc u hu; rw [setPc_ne _ _ huw] at this; exact this
        closed_ := by
          dsimp only
          intro hc
          have := (h.closed_ hc).1 w hw
          rw [hpc] at this; cases this
        next_eq := by dsimp only; rw [itemsBefore_succ_true hsp, ← h.next_eq]
        gaps_le := by
          dsimp only
          rw [gapsBefore_succ_true hsp, exSum_setPc s.pc (.holding s.next) hw (by rw [hpc]; rfl)]; exact h.gaps_le
        gaps_eq := by
          dsimp only
          rw [gapsBefore_succ_true hsp, exSum_setPc s.pc (.holding s.next) hw (by rw [hpc]; rfl)]; exact h.gaps_eq
        pulls_min := by
          dsimp only
          intro k hk
          by_cases hkp : k = s.pulls
          · subst hkp
            have := h.gaps_le
            have := exSum_lt s.pc hw (by rw [hpc]; simp)
            omega
          · exact h.pulls_min k (by omega) }
    · rename_i hge
      injection hs with hs; subst hs
      have hsp : src s.pulls = false := by
        rw [← h.hsrc]; cases hb : s.src s.pulls
        · rfl
        · exact absurd hb hge
      exact {
        hW := h.hW, hsrc := h.hsrc
        turn_le := h.turn_le
        held_ex := by
          dsimp only
          intro i h1 h2
          obtain ⟨u, hu, hui⟩ := h.held_ex i h1 h2
          have huw : u ≠ w := by intro e; subst e; rw [hitem] at hui; cases hui
          exact ⟨u, hu, by rw [setPc_ne _ _ huw]; exact hui⟩
        held_rng := by
          dsimp only
          intro u i hu hui
          by_cases huw : u = w
          · subst huw; simp [PC.item] at hui
          · rw [setPc_ne _ _ huw] at hui
            exact h.held_rng u i hu hui
        held_uniq := by
          dsimp only
          intro u u' i hu hu' hui hui'
          by_cases huw : u = w
          · subst huw; simp [PC.item] at hui
          · by_cases huw' : u' = w
            · subst huw'; simp [PC.item] at hui'
            · rw [setPc_ne _ _ huw] at hui; rw [setPc_ne _ _ huw'] at hui'
              exact h.held_uniq u u' i hu hu' hui hui'
        at_turn := by
          dsimp only
          intro u i hu hc
          by_cases huw : u = w
          · subst huw; simp at hc
          · rw [setPc_ne _ _ huw] at hc; exact h.at_turn u i hu hc
        count := by
          dsimp only
          have := sum_map_setPc PC.busy s.pc w W .exited hw
          have := h.count
          rw [hpc] at *
          simp only [PC.busy] at *
          omega
        chan_le := h.chan_le
        fifo := h.fifo
        len_sent := by
          dsimp only
          intro hd u i ok hu hc
          by_cases huw : u = w
          · subst huw; simp at hc
          · rw [setPc_ne _ _ huw] at hc; exact h.len_sent hd u i ok hu hc
        len_turn := by
          dsimp only
          intro hd
          rcases h.len_turn hd with hl | ⟨u, ok, hu, hc⟩
          · exact Or.inl hl
          · have huw : u ≠ w := by intro e; subst e; rw [hpc] at hc; cases hc
            exact Or.inr ⟨u, ok, hu, by rw [setPc_ne _ _ huw]; exact hc⟩
        sent_false := by
          dsimp only
          intro u i hu hc
          by_cases huw : u = w
          · subst huw; simp at hc
          · rw [setPc_ne _ _ huw] at hc; exact h.sent_false u i hu hc
        calls_hi := h.calls_hi
        calls_hold := by
          dsimp only
          intro u i hu hc
          by_cases huw : u = w
          · subst huw; simp at hc
          · rw [setPc_ne _ _ huw] at hc; exact h.calls_hold u i hu hc
        calls_done := by
          dsimp only
          intro i hi hc
          apply h.calls_done i hi
          intro u hu
          by_cases huw : u = w
          · subst huw; rw [hpc]; simp
          · have := hc u hu; rw [setPc_ne _ _ huw] at this; exact this
        closed_ := by
          dsimp only
          intro hc
          have := (h.closed_ hc).1 w hw
          rw [hpc] at this; cases this
        next_eq := by dsimp only; rw [itemsBefore_succ_false hsp]; exact h.next_eq
        gaps_le := by
          dsimp only
          rw [gapsBefore_succ_false hsp]
          have h1 := sum_map_setPc PC.ex s.pc w W .exited hw
          rw [hpc, ex_idle, ex_exited] at h1
          have := h.gaps_le
          omega
        gaps_eq := by
          dsimp only
          intro hd
          rw [gapsBefore_succ_false hsp]
          have h1 := sum_map_setPc PC.ex s.pc w W .exited hw
          rw [hpc, ex_idle, ex_exited] at h1
          have := h.gaps_eq hd
          omega
        pulls_min := by
          dsimp only
          intro k hk
          by_cases hkp : k = s.pulls
          · subst hkp
            have := h.gaps_le
            have := exSum_lt s.pc hw (by rw [hpc]; simp)
            omega
          · exact h.pulls_min k (by omega) }
  · cases hs

theorem inv_compute {W : Nat} {src : Nat → Bool} {s s' : PState} {w : Nat} (h : Inv W src s) (hs : stepCompute s w = some s') :
    Inv W src s' := by
  unfold stepCompute at hs
  split at hs
  · rename_i hw
    have hw : w < W := h.hW ▸ hw
    split at hs
    · rename_i i hpc
      injection hs with hs; subst hs
      have hitem : (s.pc w).item = some i := by rw [hpc]; rfl
      have hrng := h.held_rng w i hw hitem
      exact {
        hW := h.hW, hsrc := h.hsrc
        turn_le := h.turn_le
        held_ex := by
          dsimp only
          intro j h1 h2
          obtain ⟨u, hu, hui⟩ := h.held_ex j h1 h2
          by_cases huw : u = w
          · subst huw; rw [hitem] at hui; exact ⟨u, hu, by simpa [PC.item] using hui⟩
          · exact ⟨u, hu, by rw [setPc_ne _ _ huw]; exact hui⟩
        held_rng := by
          dsimp only
          intro u j hu hui
          by_cases huw : u = w
          · subst huw; simp [PC.item] at hui; subst hui; exact hrng
          · rw [setPc_ne _ _ huw] at hui
            exact h.held_rng u j hu hui
        held_uniq := by
          dsimp only
          intro u u' j hu hu' hui hui'
          have e : ∀ v, (setPc s.pc w (.computed i) v).item = (s.pc v).item := by
            intro v
            by_cases hv : v = w
            · subst hv; rw [hitem]; simp [PC.item]
            · rw [setPc_ne _ _ hv]
          rw [e] at hui hui'
          exact h.held_uniq u u' j hu hu' hui hui'
        at_turn := by
          dsimp only
          intro u j hu hc
          by_cases huw : u = w
          · subst huw; simp at hc
          · rw [setPc_ne _ _ huw] at hc; exact h.at_turn u j hu hc
        count := by
          dsimp only
          have := sum_map_setPc PC.busy s.pc w W (.computed i) hw
          have := h.count
          rw [hpc] at *
          simp only [PC.busy] at *
          omega
        chan_le := h.chan_le
        fifo := h.fifo
        len_sent := by
          dsimp only
          intro hd u j ok hu hc
          by_cases huw : u = w
          · subst huw; simp at hc
          · rw [setPc_ne _ _ huw] at hc; exact h.len_sent hd u j ok hu hc
        len_turn := by
          dsimp only
          intro hd
          rcases h.len_turn hd with hl | ⟨u, ok, hu, hc⟩
          · exact Or.inl hl
          · have huw : u ≠ w := by intro e; subst e; rw [hpc] at hc; cases hc
            exact Or.inr ⟨u, ok, hu, by rw [setPc_ne _ _ huw]; exact hc⟩
        sent_false := by
          dsimp only
          intro u j hu hc
          by_cases huw : u = w
          · subst huw; simp at hc
          · rw [setPc_ne _ _ huw] at hc; exact h.sent_false u j hu hc
        calls_hi := by
          dsimp only
          intro j hj
          rw [bump_ne _ (by omega)]; exact h.calls_hi j hj
        calls_hold := by
          dsimp only
          intro u j hu hc
          by_cases huw : u = w
          · subst huw; simp at hc
          · rw [setPc_ne _ _ huw] at hc
            have hji : j ≠ i := by
              intro e; subst e
              exact huw (h.held_uniq u w j hu hw (by rw [hc]; rfl) hitem)
            rw [bump_ne _ hji]; exact h.calls_hold u j hu hc
        calls_done := by
          dsimp only
          intro j hj hc
          by_cases hji : j = i
          · subst hji; rw [bump_same, h.calls_hold w j hw hpc]
          · rw [bump_ne _ hji]
            apply h.calls_done j hj
            intro u hu
            by_cases huw : u = w
            · subst huw; rw [hpc]; intro e; injection e with e; exact hji e.symm
            · have := hc u hu; rw [setPc_ne _ _ huw] at this; exact this
        closed_ := by
          dsimp only
          intro hc
          have := (h.closed_ hc).1 w hw
          rw [hpc] at this; cases this
        next_eq := h.next_eq
        gaps_le := by dsimp only; rw [exSum_setPc s.pc (.computed i) hw (by rw [hpc]; rfl)]; exact h.gaps_le
        gaps_eq := by dsimp only; rw [exSum_setPc s.pc (.computed i) hw (by rw [hpc]; rfl)]; exact h.gaps_eq
        pulls_min := h.pulls_min }
    · cases hs
  · cases hs

theorem inv_spin {W : Nat} {src : Nat → Bool} {s s' : PState} {w : Nat} (h : Inv W src s) (hs : stepSpin s w = some s') :
    Inv W src s' := by
  unfold stepSpin at hs
  split at hs
  · rename_i hw
    have hw : w < W := h.hW ▸ hw
    split at hs
    · rename_i i hpc
      split at hs
      · rename_i hti
        injection hs with hs; subst hs
        have hitem : (s.pc w).item = some i := by rw [hpc]; rfl
        have hrng := h.held_rng w i hw hitem
        have e : ∀ v, (setPc s.pc w (.cleared i) v).item = (s.pc v).item := by
          intro v
          by_cases hv : v = w
          · subst hv; rw [hitem]; simp [PC.item]
          · rw [setPc_ne _ _ hv]
        exact {
          hW := h.hW, hsrc := h.hsrc
          turn_le := h.turn_le
          held_ex := by
            dsimp only
            intro j h1 h2
            obtain ⟨u, hu, hui⟩ := h.held_ex j h1 h2
            exact ⟨u, hu, by rw [e]; exact hui⟩
          held_rng := by
            dsimp only
            intro u j hu hui
            rw [e] at hui
            exact h.held_rng u j hu hui
          held_uniq := by
            dsimp only
            intro u u' j hu hu' hui hui'
            rw [e] at hui hui'
            exact h.held_uniq u u' j hu hu' hui hui'
          at_turn := by
            dsimp only
            intro u j hu hc
            by_cases huw : u = w
            · subst huw; simp at hc; omega
            · rw [setPc_ne _ _ huw] at hc; exact h.at_turn u j hu hc
          count := by
            dsimp only
            have := sum_map_setPc PC.busy s.pc w W (.cleared i) hw
            have := h.count
            rw [hpc] at *
            simp only [PC.busy] at *
            omega
          chan_le := h.chan_le
          fifo := h.fifo
          len_sent := by
            dsimp only
            intro hd u j ok hu hc
            by_cases huw : u = w
            · subst huw; simp at hc
            · rw [setPc_ne _ _ huw] at hc; exact h.len_sent hd u j ok hu hc
          len_turn := by
            dsimp only
            intro hd
            rcases h.len_turn hd with hl | ⟨u, ok, hu, hc⟩
            · exact Or.inl hl
            · have huw : u ≠ w := by intro e; subst e; rw [hpc] at hc; cases hc
              exact Or.inr ⟨u, ok, hu, by rw [setPc_ne _ _ huw]; exact hc⟩
          sent_false := by
            dsimp only
            intro u j hu hc
            by_cases huw : u = w
            · subst huw; simp at hc
            · rw [setPc_ne _ _ huw] at hc; exact h.sent_false u j hu hc
          calls_hi := h.calls_hi
          calls_hold := by
            dsimp only
            intro u j hu hc
            by_cases huw : u = w
            · subst huw; simp at hc
            · rw [setPc_ne _ _ huw] at hc
              exact h.calls_hold u j hu hc
          calls_done := by
            dsimp only
            intro j hj hc
            apply h.calls_done j hj
            intro u hu
            by_cases huw : u = w
            · subst huw; rw [hpc]; simp
            · have := hc u hu; rw [setPc_ne _ _ huw] at this; exact this
          closed_ := by
            dsimp only
            intro hc
            have := (h.closed_ hc).1 w hw
            rw [hpc] at this; cases this
          next_eq := h.next_eq
          gaps_le := by dsimp only; rw [exSum_setPc s.pc (.cleared i) hw (by rw [hpc]; rfl)]; exact h.gaps_le
          gaps_eq := by dsimp only; rw [exSum_setPc s.pc (.cleared i) hw (by rw [hpc]; rfl)]; exact h.gaps_eq
          pulls_min := h.pulls_min }
      · injection hs with hs; subst hs; exact h
    · cases hs
  · cases hs

theorem inv_send {W : Nat} {src : Nat → Bool} {s s' : PState} {w : Nat} (h : Inv W src s) (hs : stepSend s w = some s') :
    Inv W src s' := by
  unfold stepSend at hs
  split at hs
  · rename_i hw
    have hw : w < W := h.hW ▸ hw
    split at hs
    · rename_i i hpc
      have hitem : (s.pc w).item = some i := by rw [hpc]; rfl
      have hrng := h.held_rng w i hw hitem
      have hit : i = s.turn := h.at_turn w i hw (Or.inl hpc)
      have e : ∀ ok v, (setPc s.pc w (.sent i ok) v).item = (s.pc v).item := by
        intro ok v
        by_cases hv : v = w
        · subst hv; rw [hitem]; simp [PC.item]
        · rw [setPc_ne _ _ hv]
      split at hs
      · rename_i hdr
        injection hs with hs; subst hs
        exact {
          hW := h.hW, hsrc := h.hsrc
          turn_le := h.turn_le
          held_ex := by
            dsimp only
            intro j h1 h2
            obtain ⟨u, hu, hui⟩ := h.held_ex j h1 h2
            exact ⟨u, hu, by rw [e]; exact hui⟩
          held_rng := by
            dsimp only
            intro u j hu hui
            rw [e] at hui
            exact h.held_rng u j hu hui
          held_uniq := by
            dsimp only
            intro u u' j hu hu' hui hui'
            rw [e] at hui hui'
            exact h.held_uniq u u' j hu hu' hui hui'
          at_turn := by
            dsimp only
            intro u j hu hc
            by_cases huw : u = w
            · subst huw; simp at hc; omega
            · rw [setPc_ne _ _ huw] at hc; exact h.at_turn u j hu hc
          count := by
            dsimp only
            have := sum_map_setPc PC.busy s.pc w W (.sent i false) hw
            have := h.count
            rw [hpc] at *
            simp only [PC.busy] at *
            omega
          chan_le := h.chan_le
          fifo := by dsimp only; intro hd; rw [hdr] at hd; cases hd
          len_sent := by dsimp only; intro hd; rw [hdr] at hd; cases hd
          len_turn := by dsimp only; intro hd; rw [hdr] at hd; cases hd
          sent_false := by dsimp only; intro _ _ _ _; exact hdr
          calls_hi := h.calls_hi
          calls_hold := by
            dsimp only
            intro u j hu hc
            by_cases huw : u = w
            · subst huw; simp at hc
            · rw [setPc_ne _ _ huw] at hc
              exact h.calls_hold u j hu hc
          calls_done := by
            dsimp only
            intro j hj hc
            apply h.calls_done j hj
            intro u hu
            by_cases huw : u = w
            · subst huw; rw [hpc]; simp
            · have := hc u hu; rw [setPc_ne _ _ huw] at this; exact this
          closed_ := by
            dsimp only
            intro hc
            have := (h.closed_ hc).1 w hw
            rw [hpc] at this; cases this
          next_eq := h.next_eq
          gaps_le := by dsimp only; rw [exSum_setPc s.pc (.sent i false) hw (by rw [hpc]; rfl)]; exact h.gaps_le
          gaps_eq := by dsimp only; rw [exSum_setPc s.pc (.sent i false) hw (by rw [hpc]; rfl)]; exact h.gaps_eq
          pulls_min := h.pulls_min }
      · rename_i hdr
        have hdr : s.dropped = false := by simpa using hdr
        split at hs
        · rename_i hlen
          injection hs with hs; subst hs
          have hL : (s.recvd ++ s.chan).length = s.turn := by
            rcases h.len_turn hdr with hl | ⟨u, ok, hu, hc⟩
            · exact hl
            · exfalso
              have : u = w := h.held_uniq u w i hu hw (by rw [hc, hit]; rfl) hitem
              subst this; rw [hpc] at hc; cases hc
          exact {
            hW := h.hW, hsrc := h.hsrc
            turn_le := h.turn_le
            held_ex := by
              dsimp only
              intro j h1 h2
              obtain ⟨u, hu, hui⟩ := h.held_ex j h1 h2
              exact ⟨u, hu, by rw [e]; exact hui⟩
            held_rng := by
              dsimp only
              intro u j hu hui
              rw [e] at hui
              exact h.held_rng u j hu hui
            held_uniq := by
              dsimp only
              intro u u' j hu hu' hui hui'
              rw [e] at hui hui'
              exact h.held_uniq u u' j hu hu' hui hui'
            at_turn := by
              dsimp only
              intro u j hu hc
              by_cases huw : u = w
              · subst huw; simp at hc; omega
              · rw [setPc_ne _ _ huw] at hc; exact h.at_turn u j hu hc
            count := by
              dsimp only
              have := sum_map_setPc PC.busy s.pc w W (.sent i true) hw
              have := h.count
              rw [hpc] at *
              simp only [PC.busy] at *
              omega
            chan_le := by
              dsimp only
              have := h.hW
              simp only [List.length_append, List.length_cons, List.length_nil]; omega
            fifo := by
              dsimp only
              intro _
              have := h.fifo hdr
              rw [← List.append_assoc, List.length_append, List.length_cons, List.length_nil,
                List.range_succ, ← this, hL, hit]
            len_sent := by
              dsimp only
              intro _ u j ok hu hc
              by_cases huw : u = w
              · subst huw; simp at hc
                rw [← List.append_assoc, List.length_append, hL]; simp; omega
              · rw [setPc_ne _ _ huw] at hc
                have h1 := h.len_sent hdr u j ok hu hc
                have h2 := h.at_turn u j hu (Or.inr ⟨ok, hc⟩)
                omega
            len_turn := by
              dsimp only
              intro _
              exact Or.inr ⟨w, true, hw, by rw [setPc_same, hit]⟩
            sent_false := by
              dsimp only
              intro u j hu hc
              by_cases huw : u = w
              · subst huw; simp at hc
              · rw [setPc_ne _ _ huw] at hc; exact h.sent_false u j hu hc
            calls_hi := h.calls_hi
            calls_hold := by
              dsimp only
              intro u j hu hc
              by_cases huw : u = w
              · subst huw; simp at hc
              · rw [setPc_ne _ _ huw] at hc
                exact h.calls_hold u j hu hc
            calls_done := by
              dsimp only
              intro j hj hc
              apply h.calls_done j hj
              intro u hu
              by_cases huw : u = w
              · subst huw; rw [hpc]; simp
              · have := hc u hu; rw [setPc_ne _ _ huw] at this; exact this
            closed_ := by
              dsimp only
              intro hc
              have := (h.closed_ hc).1 w hw
              rw [hpc] at this; cases this
            next_eq := h.next_eq
            gaps_le := by dsimp only; rw [exSum_setPc s.pc (.sent i true) hw (by rw [hpc]; rfl)]; exact h.gaps_le
            gaps_eq := by dsimp only; rw [exSum_setPc s.pc (.sent i true) hw (by rw [hpc]; rfl)]; exact h.gaps_eq
            pulls_min := h.pulls_min }
        · cases hs
    · cases hs
  · cases hs

theorem inv_advance {W : Nat} {src : Nat → Bool} {s s' : PState} {w : Nat} (h : Inv W src s) (hs : stepAdvance s w = some s') :
    Inv W src s' := by
  unfold stepAdvance at hs
  split at hs
  · rename_i hw
    have hw : w < W := h.hW ▸ hw
    split at hs
    · rename_i i ok hpc
      injection hs with hs; subst hs
      have hitem : (s.pc w).item = some i := by rw [hpc]; rfl
      have hrng := h.held_rng w i hw hitem
      have hit : i = s.turn := h.at_turn w i hw (Or.inr ⟨ok, hpc⟩)
      have hnew : (if ok = true then PC.idle else PC.exited).item = none := by
        cases ok <;> rfl
      have hnewb : (if ok = true then PC.idle else PC.exited).busy = 0 := by
        cases ok <;> rfl
      have hnsent : ∀ j ok', (if ok = true then PC.idle else PC.exited) ≠ .sent j ok' := by
        cases ok <;> simp
      have hncl : ∀ j, (if ok = true then PC.idle else PC.exited) ≠ .cleared j := by
        cases ok <;> simp
      have hnhold : ∀ j, (if ok = true then PC.idle else PC.exited) ≠ .holding j := by
        cases ok <;> simp
      have hnewe : (if ok = true then PC.idle else PC.exited).ex = (if ok = true then 0 else 1) := by
        cases ok <;> rfl
      -- any other worker owning an item owns a later one
      have hother : ∀ u j, u < W → u ≠ w → (s.pc u).item = some j → i + 1 ≤ j := by
        intro u j hu huw hui
        have h1 := h.held_rng u j hu hui
        have : j ≠ i := by
          intro e; subst e; exact huw (h.held_uniq u w j hu hw hui hitem)
        omega
      exact {
        hW := h.hW, hsrc := h.hsrc
        turn_le := by dsimp only; omega
        held_ex := by
          dsimp only
          intro j h1 h2
          obtain ⟨u, hu, hui⟩ := h.held_ex j (by omega) h2
          have huw : u ≠ w := by
            intro e; subst e; rw [hitem] at hui; injection hui with hui; omega
          exact ⟨u, hu, by rw [setPc_ne _ _ huw]; exact hui⟩
        held_rng := by
          dsimp only
          intro u j hu hui
          by_cases huw : u = w
          · subst huw; rw [setPc_same, hnew] at hui; cases hui
          · rw [setPc_ne _ _ huw] at hui
            exact ⟨hother u j hu huw hui, (h.held_rng u j hu hui).2⟩
        held_uniq := by
          dsimp only
          intro u u' j hu hu' hui hui'
          by_cases huw : u = w
          · subst huw; rw [setPc_same, hnew] at hui; cases hui
          · by_cases huw' : u' = w
            · subst huw'; rw [setPc_same, hnew] at hui'; cases hui'
            · rw [setPc_ne _ _ huw] at hui; rw [setPc_ne _ _ huw'] at hui'
              exact h.held_uniq u u' j hu hu' hui hui'
        at_turn := by
          dsimp only
          intro u j hu hc
          by_cases huw : u = w
          · subst huw; rw [setPc_same] at hc
            rcases hc with hc | ⟨ok', hc⟩
            · exact absurd hc (hncl j)
            · exact absurd hc (hnsent j ok')
          · rw [setPc_ne _ _ huw] at hc
            have h1 := h.at_turn u j hu hc
            have h2 : (s.pc u).item = some j := by
              rcases hc with hc | ⟨ok', hc⟩ <;> rw [hc] <;> rfl
            have := hother u j hu huw h2
            omega
        count := by
          dsimp only
          have := sum_map_setPc PC.busy s.pc w W (if ok = true then PC.idle else PC.exited) hw
          have := h.count
          rw [hnewb] at *
          rw [hpc] at *
          simp only [PC.busy] at *
          omega
        chan_le := h.chan_le
        fifo := h.fifo
        len_sent := by
          dsimp only
          intro hd u j ok' hu hc
          by_cases huw : u = w
          · subst huw; rw [setPc_same] at hc; exact absurd hc (hnsent j ok')
          · rw [setPc_ne _ _ huw] at hc
            have h1 := h.at_turn u j hu (Or.inr ⟨ok', hc⟩)
            have := hother u j hu huw (by rw [hc]; rfl)
            omega
        len_turn := by
          dsimp only
          intro hd
          exact Or.inl (h.len_sent hd w i ok hw hpc)
        sent_false := by
          dsimp only
          intro u j hu hc
          by_cases huw : u = w
          · subst huw; rw [setPc_same] at hc; exact absurd hc (hnsent j false)
          · rw [setPc_ne _ _ huw] at hc; exact h.sent_false u j hu hc
        calls_hi := h.calls_hi
        calls_hold := by
          dsimp only
          intro u j hu hc
          by_cases huw : u = w
          · subst huw; rw [setPc_same] at hc; exact absurd hc (hnhold j)
          · rw [setPc_ne _ _ huw] at hc
            exact h.calls_hold u j hu hc
        calls_done := by
          dsimp only
          intro j hj hc
          apply h.calls_done j hj
          intro u hu
          by_cases huw : u = w
          · subst huw; rw [hpc]; simp
          · have := hc u hu; rw [setPc_ne _ _ huw] at this; exact this
        closed_ := by
          dsimp only
          intro hc
          have := (h.closed_ hc).1 w hw
          rw [hpc] at this; cases this
        next_eq := h.next_eq
        gaps_le := by
          dsimp only
          have h1 := sum_map_setPc PC.ex s.pc w W (if ok = true then PC.idle else PC.exited) hw
          rw [hnewe, hpc, ex_sent] at h1
          have := h.gaps_le
          have : (if ok = true then 0 else 1) ≤ 1 := by split <;> omega
          omega
        gaps_eq := by
          dsimp only
          intro hd
          have h1 := sum_map_setPc PC.ex s.pc w W (if ok = true then PC.idle else PC.exited) hw
          rw [hnewe, hpc, ex_sent] at h1
          have h2 := h.gaps_eq hd
          have h3 : ok = true := by
            cases ok
            · have := h.sent_false w i hw hpc; rw [hd] at this; cases this
            · rfl
          subst h3
          simp only [if_true] at h1 ⊢
          omega
        pulls_min := h.pulls_min }
    · cases hs
  · cases hs

theorem inv_recv {W : Nat} {src : Nat → Bool} {s s' : PState} (h : Inv W src s) (hs : stepRecv s = some s') :
    Inv W src s' := by
  unfold stepRecv at hs
  split at hs
  · cases hs
  · rename_i hdc
    have hdr : s.dropped = false := by
      cases hd : s.dropped <;> simp [hd] at hdc ⊢
    split at hs
    · rename_i x rest hch
      injection hs with hs; subst hs
      have hfifo := h.fifo hdr
      have hcl := h.chan_le
      have hlt := h.len_turn hdr
      have hls := h.len_sent hdr
      have hcd := h.closed_
      rw [hch] at hfifo hcl hlt hls hcd
      have happ : s.recvd ++ [x] ++ rest = s.recvd ++ x :: rest := by simp
      exact {
        hW := h.hW, hsrc := h.hsrc
        turn_le := h.turn_le
        held_ex := h.held_ex
        held_rng := h.held_rng
        held_uniq := h.held_uniq
        at_turn := h.at_turn
        count := h.count
        chan_le := by dsimp only; simp only [List.length_cons] at hcl; omega
        fifo := by dsimp only; intro _; rw [happ]; exact hfifo
        len_sent := by dsimp only; intro _; rw [happ]; exact hls
        len_turn := by dsimp only; intro _; rw [happ]; exact hlt
        sent_false := h.sent_false
        calls_hi := h.calls_hi
        calls_hold := h.calls_hold
        calls_done := h.calls_done
        closed_ := by
          dsimp only
          intro hc
          have := (hcd hc).2.1
          cases this
        next_eq := h.next_eq
        gaps_le := h.gaps_le
        gaps_eq := h.gaps_eq
        pulls_min := h.pulls_min }
    · cases hs

theorem inv_close {W : Nat} {src : Nat → Bool} {s s' : PState} (h : Inv W src s) (hs : stepClose s = some s') :
    Inv W src s' := by
  unfold stepClose at hs
  split at hs
  · rename_i hg
    injection hs with hs; subst hs
    simp only [Bool.and_eq_true, Bool.not_eq_true', List.isEmpty_iff] at hg
    obtain ⟨⟨⟨hdr, _⟩, hch⟩, hall⟩ := hg
    have hall' := (allExited_iff s).mp hall
    rw [h.hW] at hall'
    exact {
      hW := h.hW, hsrc := h.hsrc
      turn_le := h.turn_le
      held_ex := h.held_ex
      held_rng := h.held_rng
      held_uniq := h.held_uniq
      at_turn := h.at_turn
      count := h.count
      chan_le := h.chan_le
      fifo := h.fifo
      len_sent := h.len_sent
      len_turn := h.len_turn
      sent_false := h.sent_false
      calls_hi := h.calls_hi
      calls_hold := h.calls_hold
      calls_done := h.calls_done
      closed_ := fun _ => ⟨hall', hch, hdr⟩
      next_eq := h.next_eq
      gaps_le := h.gaps_le
      gaps_eq := h.gaps_eq
      pulls_min := h.pulls_min }
  · cases hs

theorem inv_drop {W : Nat} {src : Nat → Bool} {s s' : PState} (h : Inv W src s) (hs : stepDrop s = some s') :
    Inv W src s' := by
  unfold stepDrop at hs
  split at hs
  · cases hs
  · rename_i hdc
    injection hs with hs; subst hs
    have hcl : s.closed = false := by
      cases hd : s.closed <;> simp [hd] at hdc ⊢
    exact {
      hW := h.hW, hsrc := h.hsrc
      turn_le := h.turn_le
      held_ex := h.held_ex
      held_rng := h.held_rng
      held_uniq := h.held_uniq
      at_turn := h.at_turn
      count := h.count
      chan_le := h.chan_le
      fifo := by dsimp only; intro hd; cases hd
      len_sent := by dsimp only; intro hd; cases hd
      len_turn := by dsimp only; intro hd; cases hd
      sent_false := by dsimp only; intro _ _ _ _; rfl
      calls_hi := h.calls_hi
      calls_hold := h.calls_hold
      calls_done := h.calls_done
      closed_ := by dsimp only; intro hc; rw [hcl] at hc; cases hc
      next_eq := h.next_eq
      gaps_le := h.gaps_le
      gaps_eq := by dsimp only; intro hd; cases hd
      pulls_min := h.pulls_min }

theorem inv_step {W : Nat} {src : Nat → Bool} {s s' : PState} (a : PAction) (h : Inv W src s) (hs : pstep s a = some s') :
    Inv W src s' := by
  cases a with
  | take w => exact inv_take h hs
  | compute w => exact inv_compute h hs
  | spin w => exact inv_spin h hs
  | send w => exact inv_send h hs
  | advance w => exact inv_advance h hs
  | recv => exact inv_recv h hs
  | close => exact inv_close h hs
  | drop => exact inv_drop h hs

/-- the invariant holds in every reachable state -/
theorem inv_reach {W : Nat} {src : Nat → Bool} {s : PState} (h : PReach W src s) : Inv W src s := by
  induction h with
  | init => exact inv_init W src
  | step a _ hs ih => exact inv_step a ih hs

end Tu
