/-
  Lemmas for the incremental BPE trainer model, part 3: the two index-based scanning loops of `update_stats`
  (`oldLoop`, `newLoop`) perform exactly the decrements `decsN` / increments `incsN` of part 2, in that order.
-/
import TuModel.Lemmas.BpeTrainIncL2
namespace Tu.BpeTrainIncL
open Tu

/-! ### sequences of decrements / increments -/

def applyDecs (idx f : Nat) : List BPair → Stats → Option Stats
  | [], st => some st
  | q :: qs, st =>
    match statsDec st q idx f with
    | none => none
    | some st' => applyDecs idx f qs st'

def applyIncs (idx f : Nat) : List BPair → Stats → Stats
  | [], st => st
  | q :: qs, st => applyIncs idx f qs (statsInc st q idx f)

theorem applyDecs_nil (idx f : Nat) (st : Stats) : applyDecs idx f [] st = some st := rfl
theorem applyDecs_cons (idx f : Nat) (q : BPair) (qs : List BPair) (st : Stats) :
    applyDecs idx f (q :: qs) st = (statsDec st q idx f).bind (applyDecs idx f qs) := by
  rw [applyDecs]
  cases statsDec st q idx f <;> rfl
theorem applyDecs_append (idx f : Nat) (l1 l2 : List BPair) (st : Stats) :
    applyDecs idx f (l1 ++ l2) st = (applyDecs idx f l1 st).bind (applyDecs idx f l2) := by
  induction l1 generalizing st with
  | nil => rfl
  | cons q qs ih =>
    rw [List.cons_append, applyDecs_cons, applyDecs_cons]
    cases statsDec st q idx f with
    | none => rfl
    | some st' => simp only [Option.bind_some]; exact ih st'

theorem applyIncs_nil (idx f : Nat) (st : Stats) : applyIncs idx f [] st = st := rfl
theorem applyIncs_cons (idx f : Nat) (q : BPair) (qs : List BPair) (st : Stats) :
    applyIncs idx f (q :: qs) st = applyIncs idx f qs (statsInc st q idx f) := rfl
theorem applyIncs_append (idx f : Nat) (l1 l2 : List BPair) (st : Stats) :
    applyIncs idx f (l1 ++ l2) st = applyIncs idx f l2 (applyIncs idx f l1 st) := by
  induction l1 generalizing st with
  | nil => rfl
  | cons q qs ih => rw [List.cons_append, applyIncs_cons, applyIncs_cons, ih]

/-! ### the loops, structurally (same tests as the code) -/

/-- `i < len - 2 && (old[i+2] != first || i >= len - 3 || old[i+3] != second)` as a test on the rest after the occurrence -/
def nextCond (x y : Tok) : List Tok → Bool
  | [] => false
  | [_] => true
  | c :: d :: _ => c != x || d != y

def decsR (x y : Tok) : Option Tok → List Tok → List BPair
  | _, [] => []
  | _, [_] => []
  | prev, a :: b :: r2 =>
    if a == x && b == y then optPair prev a ++ (if nextCond x y r2 then headPair b r2 else []) ++ decsR x y (some b) r2
    else decsR x y (some a) (b :: r2)

/-- `i < len - 1 && new[i+1] != merged` as a test on the rest after the merged token -/
def nextNotM (m : Tok) : List Tok → Bool
  | [] => false
  | c :: _ => c != m

def incsR (m : Tok) : Option Tok → List Tok → List BPair
  | _, [] => []
  | prev, a :: rest =>
    if a == m then optPair prev a ++ (if nextNotM m rest then headPair a rest else []) ++ incsR m (some a) rest
    else incsR m (some a) rest

theorem decsR_nil (x y : Tok) (prev : Option Tok) : decsR x y prev [] = [] := by rw [decsR]
theorem decsR_single (x y a : Tok) (prev : Option Tok) : decsR x y prev [a] = [] := by rw [decsR]
theorem decsR_match (x y : Tok) (prev : Option Tok) (r2 : List Tok) :
    decsR x y prev (x :: y :: r2) =
      optPair prev x ++ (if nextCond x y r2 then headPair y r2 else []) ++ decsR x y (some y) r2 := by
  rw [decsR]; simp
theorem decsR_nomatch (x y a b : Tok) (prev : Option Tok) (r : List Tok) (h : ¬ (a = x ∧ b = y)) :
    decsR x y prev (a :: b :: r) = decsR x y (some a) (b :: r) := by
  rw [decsR]
  have : (a == x && b == y) = false := by
    rw [Bool.and_eq_false_iff]
    by_cases ha : a = x
    · right; simpa using fun hb => h ⟨ha, hb⟩
    · left; simpa using ha
  rw [this]; rfl
theorem decsR_skip1 (x y a : Tok) (prev : Option Tok) (rest : List Tok) (h : a ≠ x) :
    decsR x y prev (a :: rest) = decsR x y (some a) rest := by
  cases rest with
  | nil => rw [decsR_single, decsR_nil]
  | cons b r => exact decsR_nomatch x y a b prev r (fun hh => h hh.1)

theorem incsR_nil (m : Tok) (prev : Option Tok) : incsR m prev [] = [] := by rw [incsR]
theorem incsR_skip1 (m a : Tok) (prev : Option Tok) (rest : List Tok) (h : a ≠ m) :
    incsR m prev (a :: rest) = incsR m (some a) rest := by
  rw [incsR]
  have : (a == m) = false := by simpa using h
  rw [this]; rfl
theorem incsR_hit (m : Tok) (prev : Option Tok) (rest : List Tok) :
    incsR m prev (m :: rest) =
      optPair prev m ++ (if nextNotM m rest then headPair m rest else []) ++ incsR m (some m) rest := by
  rw [incsR]; simp

/-- the structural loops emit the normal forms -/
theorem decsR_eq_decsN (x y : Tok) : ∀ (w : List Tok) (prev : Option Tok), decsR x y prev w = decsN x y prev w := by
  intro w
  induction w using rep.induct x y with
  | case1 => intro prev; rw [decsR_nil, decsN_nil]
  | case2 a =>
    intro prev
    rw [decsN_single, decsR_single]
  | case3 a b r h ih =>
    intro prev
    simp only [Bool.and_eq_true, beq_iff_eq] at h
    obtain ⟨rfl, rfl⟩ := h
    rw [decsR_match, decsN_match, ih (some b), List.append_assoc, List.append_assoc]
    congr 1
    match r with
    | [] => simp [nextCond, headPair, decsN_nil]
    | [c] => simp [nextCond, headPair, decsN_single]
    | c :: d :: r3 =>
      by_cases hm : c = a ∧ d = b
      · obtain ⟨rfl, rfl⟩ := hm
        simp [nextCond, headPair, decsN_match, optPair]
      · have hc : nextCond a b (c :: d :: r3) = true := by
          simp only [nextCond, Bool.or_eq_true, bne_iff_ne, ne_eq]
          by_cases hca : c = a
          · right; exact fun hd => hm ⟨hca, hd⟩
          · left; exact hca
        rw [hc, decsN_nomatch a b c d (some b) r3 hm, decsN_nomatch a b c d none r3 hm]
        simp
  | case4 a b r h ih =>
    intro prev
    have hne : ¬ (a = x ∧ b = y) := by simpa using h
    rw [decsN_nomatch x y a b prev r hne, ← ih (some a)]
    exact decsR_nomatch x y a b prev r hne

theorem incsR_eq_incsN (m : Tok) : ∀ (w : List Tok) (prev : Option Tok), incsR m prev w = incsN m prev w := by
  intro w
  induction w with
  | nil => intro prev; rw [incsR_nil, incsN_nil]
  | cons a r ih =>
    intro prev
    by_cases ha : a = m
    · subst ha
      rw [incsR_hit, incsN_hit, ih (some a), List.append_assoc, List.append_assoc]
      congr 1
      cases r with
      | nil => simp [headPair, incsN_nil, nextNotM]
      | cons c r' =>
        by_cases hc : c = a
        · subst hc
          simp [headPair, incsN_hit, optPair, nextNotM]
        · have : nextNotM a (c :: r') = true := by simpa [nextNotM] using hc
          simp only [this, if_true]
          rw [incsN_miss a c (some a) r' hc, incsN_miss a c none r' hc]
    · rw [incsR_skip1 m a prev r ha, incsN_miss m a prev r ha, ih]

/-! ### `find_position` -/

theorem findPos_none {α : Type} (pr : α → Bool) : ∀ (l : List α), findPos pr l = none → ∀ a ∈ l, pr a = false := by
  intro l
  induction l with
  | nil => intro _ a ha; cases ha
  | cons b r ih =>
    intro h a ha
    rw [findPos] at h
    by_cases hb : pr b = true
    · rw [if_pos hb] at h; cases h
    · rw [if_neg hb] at h
      rcases List.mem_cons.mp ha with ha | ha
      · subst ha; simpa using hb
      · apply ih _ a ha
        cases hf : findPos pr r with
        | none => rfl
        | some s => rw [hf] at h; simp at h

theorem findPos_some {α : Type} (pr : α → Bool) : ∀ (l : List α) (s : Nat), findPos pr l = some s →
    ∃ pre a post, l = pre ++ a :: post ∧ pre.length = s ∧ pr a = true ∧ ∀ b ∈ pre, pr b = false := by
  intro l
  induction l with
  | nil => intro s h; rw [findPos] at h; cases h
  | cons b r ih =>
    intro s h
    rw [findPos] at h
    by_cases hb : pr b = true
    · rw [if_pos hb] at h
      simp only [Option.some.injEq] at h
      subst h
      exact ⟨[], b, r, rfl, rfl, hb, by intro _ h; cases h⟩
    · rw [if_neg hb] at h
      cases hf : findPos pr r with
      | none => rw [hf] at h; simp at h
      | some s' =>
        rw [hf] at h
        simp only [Option.map_some, Option.some.injEq] at h
        subst h
        obtain ⟨pre, a, post, h1, h2, h3, h4⟩ := ih s' hf
        refine ⟨b :: pre, a, post, by rw [h1]; rfl, by simp [h2], h3, ?_⟩
        intro c hc
        rcases List.mem_cons.mp hc with hc | hc
        · subst hc; simpa using hb
        · exact h4 c hc

/-! ### skipping -/

/-- the last token of `l`, or `prev` if `l` is empty -/
def lastOr (prev : Option Tok) : List Tok → Option Tok
  | [] => prev
  | a :: r => lastOr (some a) r

theorem lastOr_append (prev : Option Tok) (l1 l2 : List Tok) : lastOr prev (l1 ++ l2) = lastOr (lastOr prev l1) l2 := by
  induction l1 generalizing prev with
  | nil => rfl
  | cons a r ih => exact ih (some a)

theorem lastOr_concat (prev : Option Tok) (l : List Tok) (a : Tok) : lastOr prev (l ++ [a]) = some a := by
  rw [lastOr_append]; rfl

theorem decsR_skip (x y : Tok) : ∀ (pre2 : List Tok) (prev : Option Tok) (l : List Tok), (∀ b ∈ pre2, b ≠ x) →
    decsR x y prev (pre2 ++ l) = decsR x y (lastOr prev pre2) l := by
  intro pre2
  induction pre2 with
  | nil => intro prev l _; rfl
  | cons b p2 ih =>
    intro prev l h
    rw [List.cons_append, decsR_skip1 x y b _ _ (h b (by simp)), ih (some b) l (fun c hc => h c (List.mem_cons_of_mem _ hc))]
    rfl

theorem decsR_skip_all (x y : Tok) : ∀ (l : List Tok) (prev : Option Tok), (∀ b ∈ l, b ≠ x) → decsR x y prev l = [] := by
  intro l prev h
  have := decsR_skip x y l prev [] h
  rw [List.append_nil, decsR_nil] at this
  exact this

theorem incsR_skip (m : Tok) : ∀ (pre2 : List Tok) (prev : Option Tok) (l : List Tok), (∀ b ∈ pre2, b ≠ m) →
    incsR m prev (pre2 ++ l) = incsR m (lastOr prev pre2) l := by
  intro pre2
  induction pre2 with
  | nil => intro prev l _; rfl
  | cons b p2 ih =>
    intro prev l h
    rw [List.cons_append, incsR_skip1 m b _ _ (h b (by simp)), ih (some b) l (fun c hc => h c (List.mem_cons_of_mem _ hc))]
    rfl

theorem incsR_skip_all (m : Tok) : ∀ (l : List Tok) (prev : Option Tok), (∀ b ∈ l, b ≠ m) → incsR m prev l = [] := by
  intro l prev h
  have := incsR_skip m l prev [] h
  rw [List.append_nil, incsR_nil] at this
  exact this

/-! ### indexing -/

theorem tokAt_append_right (pre suf : List Tok) (k : Nat) : tokAt (pre ++ suf) (pre.length + k) = suf.getD k [] := by
  unfold tokAt
  rw [List.getD_eq_getElem?_getD, List.getD_eq_getElem?_getD, List.getElem?_append_right (by omega)]
  congr 2
  omega

theorem tokAt_concat (p0 : List Tok) (a : Tok) (suf : List Tok) : tokAt (p0 ++ [a] ++ suf) ((p0 ++ [a]).length - 1) = a := by
  have := tokAt_append_right p0 ([a] ++ suf) 0
  simp only [List.length_append, List.length_singleton, Nat.add_sub_cancel]
  rw [List.append_assoc]
  simpa using this

theorem eq_nil_or_concat' (l : List Tok) : l = [] ∨ ∃ p0 a, l = p0 ++ [a] := by
  rcases List.eq_nil_or_concat l with h | ⟨p0, a, h⟩
  · exact Or.inl h
  · exact Or.inr ⟨p0, a, by rw [h]; simp⟩

theorem applyDecs_optPair_nil (idx f : Nat) (a : Tok) (st : Stats) : applyDecs idx f (optPair none a) st = some st := rfl
theorem applyDecs_single (idx f : Nat) (q : BPair) (st : Stats) : applyDecs idx f [q] st = statsDec st q idx f := by
  rw [applyDecs_cons]
  cases statsDec st q idx f <;> rfl

/-! ### one iteration of the old-word loop -/

theorem oldAt_last (x y : Tok) (idx f : Nat) (pre : List Tok) (st : Stats) :
    oldAt x y (pre ++ [x]) idx f pre.length st = some (pre.length + 1, st) := by
  unfold oldAt
  have : (pre.length == (pre ++ [x]).length - 1) = true := by simp
  rw [this]; rfl

theorem oldAt_other (x y b : Tok) (idx f : Nat) (pre r : List Tok) (st : Stats) (hb : b ≠ y) :
    oldAt x y (pre ++ x :: b :: r) idx f pre.length st = some (pre.length + 1, st) := by
  unfold oldAt
  have h2 : tokAt (pre ++ x :: b :: r) (pre.length + 1) = b := by rw [tokAt_append_right]; rfl
  have : (tokAt (pre ++ x :: b :: r) (pre.length + 1) != y) = true := by rw [h2]; simpa using hb
  rw [this, Bool.or_true]; rfl

theorem oldAt_match (x y : Tok) (idx f : Nat) (pre r2 : List Tok) (st : Stats) :
    oldAt x y (pre ++ x :: y :: r2) idx f pre.length st =
      (applyDecs idx f (optPair (lastOr none pre) x ++ (if nextCond x y r2 then headPair y r2 else [])) st).map
        (fun st2 => (pre.length + 2, st2)) := by
  unfold oldAt
  have h0 : tokAt (pre ++ x :: y :: r2) pre.length = x := by
    have := tokAt_append_right pre (x :: y :: r2) 0
    simpa using this
  have h1 : tokAt (pre ++ x :: y :: r2) (pre.length + 1) = y := by rw [tokAt_append_right]; rfl
  have c1 : (pre.length == (pre ++ x :: y :: r2).length - 1) = false := by
    simp only [List.length_append, List.length_cons, beq_eq_false_iff_ne, ne_eq]; omega
  have c2 : (tokAt (pre ++ x :: y :: r2) (pre.length + 1) != y) = false := by rw [h1]; simp
  rw [c1, c2]
  simp only [Bool.or_self, Bool.false_eq_true, if_false]
  -- prev_pair
  have e1 : (if pre.length > 0 then statsDec st (tokAt (pre ++ x :: y :: r2) (pre.length - 1), tokAt (pre ++ x :: y :: r2) pre.length) idx f
      else some st) = applyDecs idx f (optPair (lastOr none pre) x) st := by
    rcases eq_nil_or_concat' pre with hp | ⟨p0, l, hp⟩
    · subst hp; rfl
    · subst hp
      have hl : tokAt (p0 ++ [l] ++ x :: y :: r2) ((p0 ++ [l]).length - 1) = l := tokAt_concat p0 l _
      rw [h0, hl, lastOr_concat]
      have : (p0 ++ [l]).length > 0 := by simp
      rw [if_pos this]
      simp only [optPair]
      rw [applyDecs_single]
  rw [e1, applyDecs_append]
  cases applyDecs idx f (optPair (lastOr none pre) x) st with
  | none => rfl
  | some st1 =>
    simp only [Option.bind_some]
    -- next_pair
    have e2 : (if (decide (pre.length < (pre ++ x :: y :: r2).length - 2) &&
          (tokAt (pre ++ x :: y :: r2) (pre.length + 2) != x || decide (pre.length ≥ (pre ++ x :: y :: r2).length - 3) ||
            tokAt (pre ++ x :: y :: r2) (pre.length + 3) != y)) = true
        then statsDec st1 (tokAt (pre ++ x :: y :: r2) (pre.length + 1), tokAt (pre ++ x :: y :: r2) (pre.length + 2)) idx f
        else some st1) = applyDecs idx f (if nextCond x y r2 then headPair y r2 else []) st1 := by
      rw [h1]
      match r2 with
      | [] =>
        have : decide (pre.length < (pre ++ [x, y]).length - 2) = false := by simp
        rw [this]; rfl
      | [c] =>
        have t1 : decide (pre.length < (pre ++ [x, y, c]).length - 2) = true := by simp
        have t2 : decide (pre.length ≥ (pre ++ [x, y, c]).length - 3) = true := by simp
        have t3 : tokAt (pre ++ [x, y, c]) (pre.length + 2) = c := by rw [tokAt_append_right]; rfl
        rw [t1, t2, t3]
        simp only [Bool.or_true, Bool.true_or, Bool.and_self, if_true, nextCond, headPair]
        rw [applyDecs_single]
      | c :: d :: r3 =>
        have t1 : decide (pre.length < (pre ++ x :: y :: c :: d :: r3).length - 2) = true := by
          simp only [List.length_append, List.length_cons, decide_eq_true_eq]; omega
        have t2 : decide (pre.length ≥ (pre ++ x :: y :: c :: d :: r3).length - 3) = false := by
          simp only [List.length_append, List.length_cons, decide_eq_false_iff_not]; omega
        have t3 : tokAt (pre ++ x :: y :: c :: d :: r3) (pre.length + 2) = c := by rw [tokAt_append_right]; rfl
        have t4 : tokAt (pre ++ x :: y :: c :: d :: r3) (pre.length + 3) = d := by rw [tokAt_append_right]; rfl
        have hn : nextCond x y (c :: d :: r3) = (c != x || d != y) := rfl
        rw [t1, t2, t3, t4, hn]
        simp only [Bool.true_and, Bool.or_false]
        cases (c != x || d != y) with
        | true => simp only [if_true, headPair]; rw [applyDecs_single]
        | false => simp only [Bool.false_eq_true, if_false]; rfl
    rw [e2]
    cases applyDecs idx f (if nextCond x y r2 then headPair y r2 else []) st1 <;> rfl

/-- **the old-word loop** performs the decrements `decsR`, in order -/
theorem oldLoop_eq (x y : Tok) (idx f : Nat) : ∀ (fuel : Nat) (pre suf : List Tok) (st : Stats), suf.length < fuel →
    oldLoop x y (pre ++ suf) idx f fuel pre.length st = applyDecs idx f (decsR x y (lastOr none pre) suf) st := by
  intro fuel
  induction fuel with
  | zero => intro pre suf st h; omega
  | succ fuel ih =>
    intro pre suf st hf
    rw [oldLoop]
    cases suf with
    | nil => simp [decsR_nil, applyDecs_nil]
    | cons s0 sr =>
      have hlt : pre.length < (pre ++ s0 :: sr).length := by simp
      rw [if_pos hlt, List.drop_left]
      cases hfp : findPos (fun s => s == x) (s0 :: sr) with
      | none =>
        have hall := findPos_none _ _ hfp
        rw [decsR_skip_all x y _ _ (fun b hb => by simpa using hall b hb)]
        rfl
      | some start =>
        obtain ⟨pre2, a, post, hsuf, hlen, ha, hpre2⟩ := findPos_some _ _ _ hfp
        have hax : a = x := by simpa using ha
        subst hax
        subst hlen
        rw [hsuf, decsR_skip a y pre2 _ _ (fun b hb => by simpa using hpre2 b hb), ← lastOr_append]
        have e1 : pre ++ (pre2 ++ a :: post) = (pre ++ pre2) ++ a :: post := by simp
        have e2 : pre.length + pre2.length = (pre ++ pre2).length := by simp
        have hpost : post.length < fuel := by
          have := congrArg List.length hsuf
          simp at this hf
          omega
        rw [e1]
        simp only
        rw [e2]
        generalize pre ++ pre2 = pre' at *
        match post with
        | [] =>
          rw [oldAt_last]
          simp only []
          have h := ih (pre' ++ [a]) [] st (by simp; omega)
          have : oldLoop a y (pre' ++ [a]) idx f fuel (pre'.length + 1) st = some st := by
            rw [decsR_nil, applyDecs_nil] at h
            simpa using h
          rw [this, decsR_single]; rfl
        | b :: r2 =>
          by_cases hb : b = y
          · subst hb
            rw [oldAt_match, decsR_match]
            generalize (optPair (lastOr none pre') a ++ if nextCond a b r2 = true then headPair b r2 else []) = L
            rw [applyDecs_append]
            cases applyDecs idx f L st with
            | none => rfl
            | some st2 =>
              simp only [Option.map_some, Option.bind_some]
              have h := ih (pre' ++ [a, b]) r2 st2 (by simp at hpost; omega)
              have hl : lastOr none (pre' ++ [a, b]) = some b := by
                have := lastOr_concat none (pre' ++ [a]) b
                simpa using this
              rw [hl] at h
              have : oldLoop a b (pre' ++ a :: b :: r2) idx f fuel (pre'.length + 2) st2 =
                  applyDecs idx f (decsR a b (some b) r2) st2 := by simpa using h
              rw [this]
          · rw [oldAt_other a y b idx f pre' r2 st hb, decsR_nomatch a y a b _ r2 (fun hh => hb hh.2)]
            simp only []
            have h := ih (pre' ++ [a]) (b :: r2) st (by simp at hpost ⊢; omega)
            rw [lastOr_concat] at h
            have : oldLoop a y (pre' ++ a :: b :: r2) idx f fuel (pre'.length + 1) st =
                applyDecs idx f (decsR a y (some a) (b :: r2)) st := by simpa using h
            rw [this]

/-! ### the new-word loop -/

theorem newAt_eq (m : Tok) (idx f : Nat) (pre rest : List Tok) (st : Stats) :
    newAt m (pre ++ m :: rest) idx f pre.length st =
      applyIncs idx f (optPair (lastOr none pre) m ++ (if nextNotM m rest then headPair m rest else [])) st := by
  unfold newAt
  have h0 : tokAt (pre ++ m :: rest) pre.length = m := by
    have := tokAt_append_right pre (m :: rest) 0
    simpa using this
  have e1 : (if pre.length > 0 then statsInc st (tokAt (pre ++ m :: rest) (pre.length - 1), tokAt (pre ++ m :: rest) pre.length) idx f
      else st) = applyIncs idx f (optPair (lastOr none pre) m) st := by
    rcases eq_nil_or_concat' pre with hp | ⟨p0, l, hp⟩
    · subst hp; rfl
    · subst hp
      have hl : tokAt (p0 ++ [l] ++ m :: rest) ((p0 ++ [l]).length - 1) = l := tokAt_concat p0 l _
      rw [h0, hl, lastOr_concat]
      have : (p0 ++ [l]).length > 0 := by simp
      rw [if_pos this]
      rfl
  simp only []
  rw [e1, applyIncs_append, h0]
  generalize applyIncs idx f (optPair (lastOr none pre) m) st = st1
  cases rest with
  | nil =>
    have : decide (pre.length < (pre ++ [m]).length - 1) = false := by simp
    rw [this]; rfl
  | cons c r =>
    have t1 : decide (pre.length < (pre ++ m :: c :: r).length - 1) = true := by
      simp only [List.length_append, List.length_cons, decide_eq_true_eq]; omega
    have t2 : tokAt (pre ++ m :: c :: r) (pre.length + 1) = c := by rw [tokAt_append_right]; rfl
    have hn : nextNotM m (c :: r) = (c != m) := rfl
    rw [t1, t2, hn]
    simp only [Bool.true_and]
    cases (c != m) with
    | true => rfl
    | false => rfl

/-- **the new-word loop** performs the increments `incsR`, in order -/
theorem newLoop_eq (m : Tok) (idx f : Nat) : ∀ (fuel : Nat) (pre suf : List Tok) (st : Stats), suf.length < fuel →
    newLoop m (pre ++ suf) idx f fuel pre.length st = applyIncs idx f (incsR m (lastOr none pre) suf) st := by
  intro fuel
  induction fuel with
  | zero => intro pre suf st h; omega
  | succ fuel ih =>
    intro pre suf st hf
    rw [newLoop]
    cases suf with
    | nil => simp [incsR_nil, applyIncs_nil]
    | cons s0 sr =>
      have hlt : pre.length < (pre ++ s0 :: sr).length := by simp
      rw [if_pos hlt, List.drop_left]
      cases hfp : findPos (fun s => s == m) (s0 :: sr) with
      | none =>
        have hall := findPos_none _ _ hfp
        rw [incsR_skip_all m _ _ (fun b hb => by simpa using hall b hb)]
        rfl
      | some start =>
        obtain ⟨pre2, a, post, hsuf, hlen, ha, hpre2⟩ := findPos_some _ _ _ hfp
        have hax : a = m := by simpa using ha
        subst hax
        subst hlen
        rw [hsuf, incsR_skip a pre2 _ _ (fun b hb => by simpa using hpre2 b hb), ← lastOr_append]
        have e1 : pre ++ (pre2 ++ a :: post) = (pre ++ pre2) ++ a :: post := by simp
        have e2 : pre.length + pre2.length = (pre ++ pre2).length := by simp
        have hpost : post.length < fuel := by
          have := congrArg List.length hsuf
          simp at this hf
          omega
        rw [e1]
        simp only
        rw [e2]
        generalize pre ++ pre2 = pre' at *
        rw [newAt_eq, incsR_hit]
        generalize (optPair (lastOr none pre') a ++ if nextNotM a post = true then headPair a post else []) = L
        rw [applyIncs_append]
        have h := ih (pre' ++ [a]) post (applyIncs idx f L st) hpost
        rw [lastOr_concat] at h
        have : ∀ st', newLoop a (pre' ++ a :: post) idx f fuel (pre'.length + 1) st' =
            newLoop a (pre' ++ [a] ++ post) idx f fuel (pre' ++ [a]).length st' := by
          intro st'; simp
        rw [this, h]

end Tu.BpeTrainIncL
