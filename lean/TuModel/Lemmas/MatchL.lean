import TuModel.Model.Match
import TuModel.Lemmas.EditTable
namespace Tu

/-! ## `max_by` (last maximum) -/

theorem foldl_max_mem (xs : List (Nat × MOp)) (x : Nat × MOp) :
    xs.foldl (fun m y => if m.1 ≤ y.1 then y else m) x ∈ x :: xs := by
  induction xs generalizing x with
  | nil => simp
  | cons y ys ih =>
    simp only [List.foldl_cons]
    by_cases h : x.1 ≤ y.1
    · simp only [h, if_true]
      have := ih y
      simp only [List.mem_cons] at this ⊢
      rcases this with h | h
      · exact Or.inr (Or.inl h)
      · exact Or.inr (Or.inr h)
    · simp only [h, if_false]
      have := ih x
      simp only [List.mem_cons] at this ⊢
      rcases this with h | h
      · exact Or.inl h
      · exact Or.inr (Or.inr h)

theorem foldl_max_ge (xs : List (Nat × MOp)) (x : Nat × MOp) :
    x.1 ≤ (xs.foldl (fun m y => if m.1 ≤ y.1 then y else m) x).1 ∧
    ∀ z ∈ xs, z.1 ≤ (xs.foldl (fun m y => if m.1 ≤ y.1 then y else m) x).1 := by
  induction xs generalizing x with
  | nil => simp
  | cons y ys ih =>
    simp only [List.foldl_cons]
    by_cases h : x.1 ≤ y.1
    · simp only [h, if_true]
      obtain ⟨h1, h2⟩ := ih y
      refine ⟨by omega, ?_⟩
      intro z hz
      rcases List.mem_cons.mp hz with rfl | hz
      · exact h1
      · exact h2 z hz
    · simp only [h, if_false]
      obtain ⟨h1, h2⟩ := ih x
      refine ⟨h1, ?_⟩
      intro z hz
      rcases List.mem_cons.mp hz with rfl | hz
      · omega
      · exact h2 z hz

theorem maxByFst_mem {l : List (Nat × MOp)} (h : l ≠ []) : maxByFst l ∈ l := by
  cases l with
  | nil => exact absurd rfl h
  | cons x xs => exact foldl_max_mem xs x

theorem maxByFst_ge {l : List (Nat × MOp)} {z : Nat × MOp} (hz : z ∈ l) : z.1 ≤ (maxByFst l).1 := by
  cases l with
  | nil => simp at hz
  | cons x xs =>
    rcases List.mem_cons.mp hz with rfl | hz
    · exact (foldl_max_ge xs z).1
    · exact (foldl_max_ge xs x).2 z hz

/-! ## the LCS recurrence and common subsequences -/

/-- the longest-common-subsequence recurrence on reversed prefixes -/
def lcsR : List (List Nat) → List (List Nat) → Nat
  | [], _ => 0
  | _ :: _, [] => 0
  | x :: as, y :: bs =>
    (maxByFst (mCandidates (x == y) (lcsR as (y :: bs)) (lcsR (x :: as) bs) (lcsR as bs))).1
termination_by as bs => as.length + bs.length
decreasing_by all_goals simp only [List.length_cons] <;> omega

theorem lcsR_nil_left (bs : List (List Nat)) : lcsR [] bs = 0 := by rw [lcsR]
theorem lcsR_nil_right (as : List (List Nat)) : lcsR as [] = 0 := by
  cases as with
  | nil => rw [lcsR]
  | cons x as => rw [lcsR]
theorem lcsR_cons (x y : List Nat) (as bs : List (List Nat)) :
    lcsR (x :: as) (y :: bs) =
      (maxByFst (mCandidates (x == y) (lcsR as (y :: bs)) (lcsR (x :: as) bs) (lcsR as bs))).1 := by
  rw [lcsR]

theorem mem_mCandidates {eq : Bool} {dU dL dD : Nat} {z : Nat × MOp} :
    z ∈ mCandidates eq dU dL dD ↔ z = (dU, .delete) ∨ z = (dL, .insert) ∨
      (eq = true ∧ z = (dD + 1, .matched)) ∨ (eq = false ∧ z = (dD, .unmatched)) := by
  unfold mCandidates
  cases eq <;> simp

theorem lcsR_cons_ge (x y : List Nat) (as bs : List (List Nat)) :
    lcsR as (y :: bs) ≤ lcsR (x :: as) (y :: bs) ∧ lcsR (x :: as) bs ≤ lcsR (x :: as) (y :: bs) ∧
    lcsR as bs + (if x = y then 1 else 0) ≤ lcsR (x :: as) (y :: bs) := by
  rw [lcsR_cons]
  refine ⟨?_, ?_, ?_⟩
  · exact maxByFst_ge (mem_mCandidates.mpr (Or.inl rfl))
  · exact maxByFst_ge (mem_mCandidates.mpr (Or.inr (Or.inl rfl)))
  · by_cases h : x = y
    · have := maxByFst_ge (z := (lcsR as bs + 1, MOp.matched)) (mem_mCandidates.mpr (Or.inr (Or.inr (Or.inl ⟨by simpa using h, rfl⟩))) :
        _ ∈ mCandidates (x == y) (lcsR as (y :: bs)) (lcsR (x :: as) bs) (lcsR as bs))
      simpa [h] using this
    · have := maxByFst_ge (z := (lcsR as bs, MOp.unmatched)) (mem_mCandidates.mpr (Or.inr (Or.inr (Or.inr ⟨by simpa using h, rfl⟩))) :
        _ ∈ mCandidates (x == y) (lcsR as (y :: bs)) (lcsR (x :: as) bs) (lcsR as bs))
      simpa [h] using this

/-- every common subsequence is at most as long as the value of the recurrence … -/
theorem lcs_upper : ∀ (k : Nat) (as bs m : List (List Nat)), as.length + bs.length = k →
    List.Sublist m as → List.Sublist m bs → m.length ≤ lcsR as bs := by
  intro k
  induction k using Nat.strongRecOn with
  | _ k ih =>
    intro as bs m hk ha hb
    cases m with
    | nil => simp
    | cons z m =>
      cases as with
      | nil => simp at ha
      | cons x as =>
        cases bs with
        | nil => simp at hb
        | cons y bs =>
          obtain ⟨g1, g2, g3⟩ := lcsR_cons_ge x y as bs
          simp only [List.length_cons] at hk
          cases ha with
          | cons _ ha' =>
            have := ih (as.length + (bs.length + 1)) (by omega) as (y :: bs) (z :: m) (by simp) ha' hb
            omega
          | cons_cons _ ha' =>
            cases hb with
            | cons _ hb' =>
              have := ih (as.length + 1 + bs.length) (by omega) (z :: as) bs (z :: m) (by simp) (ha'.cons_cons z) hb'
              omega
            | cons_cons _ hb' =>
              have := ih (as.length + bs.length) (by omega) as bs m rfl ha' hb'
              simp at g3 ⊢
              omega

/-- … and some common subsequence attains it: the recurrence is the LCS length -/
theorem lcs_attained : ∀ (k : Nat) (as bs : List (List Nat)), as.length + bs.length = k →
    ∃ m, List.Sublist m as ∧ List.Sublist m bs ∧ m.length = lcsR as bs := by
  intro k
  induction k using Nat.strongRecOn with
  | _ k ih =>
    intro as bs hk
    cases as with
    | nil => exact ⟨[], by simp, by simp, by simp [lcsR_nil_left]⟩
    | cons x as =>
      cases bs with
      | nil => exact ⟨[], by simp, by simp, by simp [lcsR_nil_right]⟩
      | cons y bs =>
        simp only [List.length_cons] at hk
        rw [lcsR_cons]
        have hmem := maxByFst_mem (l := mCandidates (x == y) (lcsR as (y :: bs)) (lcsR (x :: as) bs) (lcsR as bs)) (by simp [mCandidates])
        rcases mem_mCandidates.mp hmem with h | h | ⟨he, h⟩ | ⟨he, h⟩
        · obtain ⟨m, h1, h2, h3⟩ := ih (as.length + (bs.length + 1)) (by omega) as (y :: bs) (by simp)
          exact ⟨m, h1.cons x, h2, by rw [h]; exact h3⟩
        · obtain ⟨m, h1, h2, h3⟩ := ih (as.length + 1 + bs.length) (by omega) (x :: as) bs (by simp)
          exact ⟨m, h1, h2.cons y, by rw [h]; exact h3⟩
        · obtain ⟨m, h1, h2, h3⟩ := ih (as.length + bs.length) (by omega) as bs rfl
          have hxy : x = y := by simpa using he
          subst hxy
          exact ⟨x :: m, h1.cons_cons x, h2.cons_cons x, by rw [h]; simp [h3]⟩
        · obtain ⟨m, h1, h2, h3⟩ := ih (as.length + bs.length) (by omega) as bs rfl
          exact ⟨m, h1.cons x, h2.cons y, by rw [h]; exact h3⟩

end Tu
