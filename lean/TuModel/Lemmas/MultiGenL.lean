/-
  Lemmas about the `MultiTrainDataGenerator` model (Model/MultiGen.lean): the state invariant,
  `nextIdx` re-establishes it, and a generic "simulation" theorem for `mgNext` / `mgDrain`
  from which the merge property, the sequential order and the round-robin order are derived.
-/
import TuModel.Model.MultiGen
namespace Tu.MultiGenL
open Tu

/-! ### small list facts -/

theorem getD_set_self {α} (l : List α) (i : Nat) (a d : α) (h : i < l.length) :
    (l.set i a).getD i d = a := by
  simp [List.getD_eq_getElem?_getD, h]

theorem getD_set_ne {α} (l : List α) (i j : Nat) (a d : α) (h : i ≠ j) :
    (l.set i a).getD j d = l.getD j d := by
  simp [List.getD_eq_getElem?_getD, h]

theorem lt_length_of_getD_ne {α} (l : List α) (i : Nat) (d : α) (h : l.getD i d ≠ d) :
    i < l.length := by
  false_or_by_contra
  rename_i hn
  apply h
  simp [List.getD_eq_getElem?_getD, List.getElem?_eq_none (Nat.le_of_not_lt hn)]

theorem getD_eq_getElem {α} (l : List α) (i : Nat) (d : α) (h : i < l.length) :
    l.getD i d = l[i] := by
  simp [List.getD_eq_getElem?_getD, h]

theorem getD_of_le {α} (l : List α) (i : Nat) (d : α) (h : l.length ≤ i) :
    l.getD i d = d := by
  simp [List.getD_eq_getElem?_getD, List.getElem?_eq_none h]

/-! ### total number of items -/

theorem totalItems_nil : totalItems [] = 0 := rfl
theorem totalItems_cons (s : List Nat) (l : List (List Nat)) :
    totalItems (s :: l) = s.length + totalItems l := by
  simp [totalItems]

theorem totalItems_set (srcs : List (List Nat)) (i : Nat) (x : Nat) (rest : List Nat)
    (h : srcs.getD i [] = x :: rest) : totalItems (srcs.set i rest) + 1 = totalItems srcs := by
  induction srcs generalizing i with
  | nil => simp at h
  | cons s l ih =>
    cases i with
    | zero =>
      simp at h
      subst h
      simp [totalItems_cons]; omega
    | succ i =>
      simp at h
      have := ih i (by simpa using h)
      simp [totalItems_cons]; omega

theorem all_empty_iff_getD (srcs : List (List Nat)) :
    (∀ l ∈ srcs, l = []) ↔ ∀ i, srcs.getD i [] = [] := by
  constructor
  · intro h i
    by_cases hi : i < srcs.length
    · rw [getD_eq_getElem _ _ _ hi]; exact h _ (List.getElem_mem hi)
    · exact getD_of_le _ _ _ (Nat.le_of_not_lt hi)
  · intro h l hl
    obtain ⟨i, hi, rfl⟩ := List.mem_iff_getElem.mp hl
    rw [← getD_eq_getElem _ _ [] hi]; exact h i

theorem totalItems_eq_zero (srcs : List (List Nat)) (h : ∀ l ∈ srcs, l = []) : totalItems srcs = 0 := by
  induction srcs with
  | nil => rfl
  | cons s l ih =>
    rw [totalItems_cons, ih (fun x hx => h x (List.mem_cons_of_mem _ hx)), h s (List.mem_cons_self ..)]
    rfl

/-! ### counting unfinished flags -/

def countFalse (fin : List Bool) : Nat := fin.count false

theorem countFalse_le (fin : List Bool) : countFalse fin ≤ fin.length := List.count_le_length

theorem countFalse_set (fin : List Bool) (i : Nat) (h : fin.getD i true = false) :
    countFalse (fin.set i true) + 1 = countFalse fin := by
  induction fin generalizing i with
  | nil => simp at h
  | cons b l ih =>
    cases i with
    | zero =>
      simp at h
      subst h
      simp [countFalse]
    | succ i =>
      have := ih i (by simpa using h)
      simp only [countFalse] at this ⊢
      simp only [List.set_cons_succ, List.count_cons]
      omega

theorem all_id_iff (fin : List Bool) : fin.all id = true ↔ ∀ i, fin.getD i true = true := by
  constructor
  · intro h i
    by_cases hi : i < fin.length
    · rw [getD_eq_getElem _ _ _ hi]
      exact List.all_eq_true.mp h _ (List.getElem_mem hi)
    · exact getD_of_le _ _ _ (Nat.le_of_not_lt hi)
  · intro h
    apply List.all_eq_true.mpr
    intro b hb
    obtain ⟨i, hi, rfl⟩ := List.mem_iff_getElem.mp hb
    rw [← getD_eq_getElem _ _ true hi]; exact h i

theorem exists_unfinished (fin : List Bool) (h : ¬ fin.all id = true) :
    ∃ j, fin.getD j true = false := by
  false_or_by_contra
  rename_i hn
  apply h
  rw [all_id_iff]
  intro i
  cases hv : fin.getD i true with
  | true => rfl
  | false => exact absurd ⟨i, hv⟩ hn


/-! ### one loop iteration of `mgNext`, and the generic simulation theorem -/

/-- state after yielding the head of the current source (`rest` is what remains of it) -/
def yieldStep (s : Strategy) (g : MG) (rest : List Nat) (c : Nat) : MG :=
  { srcs := g.srcs.set g.idx rest,
    idx := nextIdx s { g with srcs := g.srcs.set g.idx rest } c,
    fin := g.fin }

/-- the current source marked finished -/
def marked (g : MG) : MG := { g with fin := g.fin.set g.idx true }

/-- state after marking the current source finished and moving on -/
def markStep (s : Strategy) (g : MG) (c : Nat) : MG :=
  { marked g with idx := nextIdx s (marked g) c }

theorem mgNext_succ (s : Strategy) (fuel : Nat) (g : MG) (cs : List Nat) :
    mgNext s (fuel+1) g cs =
      match g.srcs.getD g.idx [] with
      | x :: rest => some ((x, g.idx), yieldStep s g rest (cs.headD 0), cs.tail)
      | [] => if allFinished (marked g) then none else mgNext s fuel (markStep s g (cs.headD 0)) cs.tail := by
  rw [mgNext]; rfl

/-- hypotheses of the simulation theorem: `Inv` is a state invariant, `Q g out` says that `out` is an
acceptable complete output from state `g` -/
structure Sim (s : Strategy) (Inv : MG → Prop) (Q : MG → List (Nat × Nat) → Prop) : Prop where
  len : ∀ g, Inv g → g.fin.length = g.srcs.length
  cur : ∀ g, Inv g → g.fin.getD g.idx true = false
  yld : ∀ g x rest c, Inv g → g.srcs.getD g.idx [] = x :: rest →
    Inv (yieldStep s g rest c) ∧ ∀ out, Q (yieldStep s g rest c) out → Q g ((x, g.idx) :: out)
  mrk : ∀ g c, Inv g → g.srcs.getD g.idx [] = [] → ¬ allFinished (marked g) = true →
    Inv (markStep s g c) ∧ ∀ out, Q (markStep s g c) out → Q g out
  stop : ∀ g, Inv g → g.srcs.getD g.idx [] = [] → allFinished (marked g) = true → Q g []

theorem mgNext_sim {s Inv Q} (H : Sim s Inv Q) :
    ∀ (fuel : Nat) (g : MG) (cs : List Nat), Inv g → countFalse g.fin ≤ fuel →
      (mgNext s fuel g cs = none ∧ Q g []) ∨
      (∃ y g' cs', mgNext s fuel g cs = some (y, g', cs') ∧ Inv g' ∧
        totalItems g'.srcs + 1 = totalItems g.srcs ∧ ∀ out, Q g' out → Q g (y :: out)) := by
  intro fuel
  induction fuel with
  | zero =>
    intro g cs hI hc
    have := countFalse_set g.fin g.idx (H.cur g hI)
    omega
  | succ fuel ih =>
    intro g cs hI hc
    rw [mgNext_succ]
    cases hsrc : g.srcs.getD g.idx [] with
    | cons x rest =>
      right
      obtain ⟨h1, h2⟩ := H.yld g x rest (cs.headD 0) hI hsrc
      refine ⟨_, _, _, rfl, h1, ?_, h2⟩
      exact totalItems_set _ _ _ _ hsrc
    | nil =>
      simp only
      by_cases hall : allFinished (marked g) = true
      · left
        simp only [hall, if_true, true_and]
        exact H.stop g hI hsrc hall
      · simp only [hall]
        obtain ⟨h1, h2⟩ := H.mrk g (cs.headD 0) hI hsrc hall
        have hcnt := countFalse_set g.fin g.idx (H.cur g hI)
        rcases ih (markStep s g (cs.headD 0)) cs.tail h1 (by simp only [markStep, marked]; omega) with
          ⟨e, q⟩ | ⟨y, g', cs', e, hI', ht, q⟩
        · left; exact ⟨e, h2 _ q⟩
        · right
          exact ⟨y, g', cs', e, hI', ht, fun out ho => h2 _ (q out ho)⟩

theorem mgDrain_sim {s Inv Q} (H : Sim s Inv Q) :
    ∀ (fuel : Nat) (g : MG) (cs : List Nat), Inv g → totalItems g.srcs < fuel →
      Q g (mgDrain s fuel g cs) := by
  intro fuel
  induction fuel with
  | zero => intro g cs _ h; omega
  | succ fuel ih =>
    intro g cs hI hf
    rw [mgDrain]
    have hc : countFalse g.fin ≤ g.srcs.length + 1 := by
      have := countFalse_le g.fin
      have := H.len g hI
      omega
    rcases mgNext_sim H _ g cs hI hc with ⟨e, q⟩ | ⟨y, g', cs', e, hI', ht, q⟩
    · rw [e]; exact q
    · rw [e]
      exact q _ (ih g' cs' hI' (by omega))


/-! ### `nextUnfinished` -/

theorem nextUnfinished_succ (fin : List Bool) (fuel i : Nat) :
    nextUnfinished fin (fuel+1) i =
      if fin.getD i true then nextUnfinished fin fuel ((i + 1) % fin.length) else i := by
  rw [nextUnfinished]

/-- searching upwards without wrapping around -/
theorem nextUnfinished_up (fin : List Bool) :
    ∀ (fuel i r : Nat), i ≤ r → r < fin.length → fin.getD r true = false →
      (∀ j, i ≤ j → j < r → fin.getD j true = true) → r - i < fuel →
      nextUnfinished fin fuel i = r := by
  intro fuel
  induction fuel with
  | zero => intro i r _ _ _ _ h; omega
  | succ fuel ih =>
    intro i r hir hr hf hall hfuel
    rw [nextUnfinished_succ]
    by_cases he : i = r
    · subst he; rw [hf]; rfl
    · have hi : fin.getD i true = true := hall i (Nat.le_refl _) (by omega)
      simp only [hi, if_true]
      rw [Nat.mod_eq_of_lt (by omega)]
      exact ih (i+1) r (by omega) hr hf (fun j h1 h2 => hall j (by omega) h2) (by omega)

/-- searching with wrap-around -/
theorem nextUnfinished_wrap (fin : List Bool) :
    ∀ (fuel i r : Nat), r < i → i < fin.length → fin.getD r true = false →
      (∀ j, i ≤ j → fin.getD j true = true) → (∀ j, j < r → fin.getD j true = true) →
      (fin.length - i) + r < fuel →
      nextUnfinished fin fuel i = r := by
  intro fuel
  induction fuel with
  | zero => intro i r _ _ _ _ _ h; omega
  | succ fuel ih =>
    intro i r hri hi hf hup hlow hfuel
    rw [nextUnfinished_succ]
    simp only [hup i (Nat.le_refl _), if_true]
    by_cases hn : i + 1 < fin.length
    · rw [Nat.mod_eq_of_lt hn]
      exact ih (i+1) r (by omega) hn hf (fun j h => hup j (by omega)) hlow (by omega)
    · have : i + 1 = fin.length := by omega
      rw [this, Nat.mod_self]
      exact nextUnfinished_up fin fuel 0 r (Nat.zero_le _) (by omega) hf (fun j _ h => hlow j h) (by omega)

/-- from `i` upwards there is a first unfinished index, or none at all -/
theorem firstFalse (fin : List Bool) :
    ∀ (k i : Nat), i + k = fin.length →
      (∃ r, i ≤ r ∧ r < fin.length ∧ fin.getD r true = false ∧
        ∀ j, i ≤ j → j < r → fin.getD j true = true) ∨
      (∀ j, i ≤ j → fin.getD j true = true) := by
  intro k
  induction k with
  | zero =>
    intro i hi
    right
    intro j hj
    exact getD_of_le _ _ _ (by omega)
  | succ k ih =>
    intro i hi
    cases hv : fin.getD i true with
    | false =>
      left
      exact ⟨i, Nat.le_refl _, by omega, hv, fun j h1 h2 => by omega⟩
    | true =>
      rcases ih (i+1) (by omega) with ⟨r, h1, h2, h3, h4⟩ | h
      · left
        refine ⟨r, by omega, h2, h3, ?_⟩
        intro j hj1 hj2
        by_cases hji : j = i
        · subst hji; exact hv
        · exact h4 j (by omega) hj2
      · right
        intro j hj
        by_cases hji : j = i
        · subst hji; exact hv
        · exact h j (by omega)

/-- the index chosen by the interleaved strategy: the cyclically next unfinished one after `idx` -/
theorem nextUnfinished_spec (fin : List Bool) (idx : Nat) (hidx : idx < fin.length)
    (hex : ∃ j, fin.getD j true = false) :
    fin.getD (nextUnfinished fin fin.length ((idx + 1) % fin.length)) true = false ∧
    ((idx + 1 ≤ nextUnfinished fin fin.length ((idx + 1) % fin.length) ∧
        ∀ j, idx + 1 ≤ j → j < nextUnfinished fin fin.length ((idx + 1) % fin.length) →
          fin.getD j true = true) ∨
     (nextUnfinished fin fin.length ((idx + 1) % fin.length) < idx + 1 ∧
        (∀ j, idx + 1 ≤ j → fin.getD j true = true) ∧
        ∀ j, j < nextUnfinished fin fin.length ((idx + 1) % fin.length) → fin.getD j true = true)) := by
  rcases firstFalse fin (fin.length - (idx+1)) (idx+1) (by omega) with ⟨r, h1, h2, h3, h4⟩ | hup
  · have : nextUnfinished fin fin.length ((idx + 1) % fin.length) = r := by
      rw [Nat.mod_eq_of_lt (by omega)]
      exact nextUnfinished_up fin _ _ r h1 h2 h3 h4 (by omega)
    rw [this]
    exact ⟨h3, Or.inl ⟨h1, h4⟩⟩
  · rcases firstFalse fin fin.length 0 (by omega) with ⟨r, _, h2, h3, h4⟩ | hall
    · have hr : r < idx + 1 := by
        false_or_by_contra
        rename_i hn
        have := hup r (by omega)
        rw [h3] at this
        cases this
      have : nextUnfinished fin fin.length ((idx + 1) % fin.length) = r := by
        by_cases hn : idx + 1 < fin.length
        · rw [Nat.mod_eq_of_lt hn]
          exact nextUnfinished_wrap fin _ _ r hr hn h3 hup (fun j h => h4 j (Nat.zero_le _) h) (by omega)
        · have : idx + 1 = fin.length := by omega
          rw [this, Nat.mod_self]
          exact nextUnfinished_up fin _ 0 r (Nat.zero_le _) h2 h3 h4 (by omega)
      rw [this]
      exact ⟨h3, Or.inr ⟨hr, hup, fun j h => h4 j (Nat.zero_le _) h⟩⟩
    · obtain ⟨j, hj⟩ := hex
      have := hall j (Nat.zero_le _)
      rw [hj] at this
      cases this

/-! ### the weighted choice -/

theorem weighted_spec (fin : List Bool) (idx c : Nat) (hex : ∃ j, fin.getD j true = false) :
    fin.getD (((List.range fin.length).filter (fun i => !(fin.getD i true))).getD
      (c % ((List.range fin.length).filter (fun i => !(fin.getD i true))).length) idx) true = false := by
  obtain ⟨j, hj⟩ := hex
  have hjl : j < fin.length := lt_length_of_getD_ne fin j true (by rw [hj]; simp)
  have hmem : j ∈ (List.range fin.length).filter (fun i => !(fin.getD i true)) := by
    rw [List.mem_filter]
    exact ⟨List.mem_range.mpr hjl, by rw [hj]; rfl⟩
  have hpos : 0 < ((List.range fin.length).filter (fun i => !(fin.getD i true))).length :=
    List.length_pos_of_mem hmem
  have hlt := Nat.mod_lt c hpos
  rw [getD_eq_getElem _ _ _ hlt]
  have := List.getElem_mem hlt
  rw [List.mem_filter] at this
  simpa using this.2


/-! ### the state invariant -/

/-- flags and sources have the same length, the current source is not marked finished, and a
source marked finished is empty -/
def Base (g : MG) : Prop :=
  g.fin.length = g.srcs.length ∧ g.fin.getD g.idx true = false ∧
  ∀ i, g.fin.getD i true = true → g.srcs.getD i [] = []

/-- sequential: exactly the sources before the current one are marked finished -/
def SeqExtra (g : MG) : Prop :=
  (∀ i, i < g.idx → g.fin.getD i true = true) ∧
  (∀ i, g.idx ≤ i → i < g.fin.length → g.fin.getD i true = false)

def Inv (s : Strategy) (g : MG) : Prop := Base g ∧ (s = .sequential → SeqExtra g)

theorem Base.idx_lt {g : MG} (h : Base g) : g.idx < g.fin.length :=
  lt_length_of_getD_ne g.fin g.idx true (by rw [h.2.1]; simp)

theorem getD_map_false (srcs : List (List Nat)) (i : Nat) (h : i < srcs.length) :
    (srcs.map (fun _ => false)).getD i true = false := by
  rw [getD_eq_getElem _ _ _ (by simpa using h)]
  simp

theorem Inv_init (s : Strategy) (srcs : List (List Nat)) (hne : srcs ≠ []) : Inv s (MG.init srcs) := by
  have hpos : 0 < srcs.length := List.length_pos_iff.mpr hne
  refine ⟨⟨by simp [MG.init], ?_, ?_⟩, fun _ => ⟨?_, ?_⟩⟩
  · exact getD_map_false srcs 0 hpos
  · intro i hi
    simp only [MG.init] at hi ⊢
    by_cases hl : i < srcs.length
    · rw [getD_map_false srcs i hl] at hi; cases hi
    · exact getD_of_le _ _ _ (by omega)
  · intro i hi
    simp only [MG.init] at hi
    omega
  · intro i _ hi
    simp only [MG.init] at hi ⊢
    exact getD_map_false srcs i (by simpa using hi)

theorem seq_yield_idx (g : MG) (rest : List Nat) (c : Nat) (h : g.fin.getD g.idx true = false) :
    (yieldStep .sequential g rest c).idx = g.idx := by
  simp only [yieldStep, nextIdx, h]
  rfl

theorem marked_getD_self (g : MG) (h : g.idx < g.fin.length) : (marked g).fin.getD g.idx true = true :=
  getD_set_self _ _ _ _ h

theorem marked_getD_ne (g : MG) (i : Nat) (h : g.idx ≠ i) :
    (marked g).fin.getD i true = g.fin.getD i true :=
  getD_set_ne _ _ _ _ _ h

theorem marked_exists (g : MG) (h : ¬ allFinished (marked g) = true) :
    ∃ j, (marked g).fin.getD j true = false := exists_unfinished _ h

theorem seq_mark_idx (g : MG) (c : Nat) (hI : Inv .sequential g) (hall : ¬ allFinished (marked g) = true) :
    (markStep .sequential g c).idx = g.idx + 1 ∧ g.idx + 1 < g.fin.length := by
  obtain ⟨hB, hS⟩ := hI
  obtain ⟨hS1, hS2⟩ := hS rfl
  have hidx := hB.idx_lt
  obtain ⟨j, hj⟩ := marked_exists g hall
  have hjl : j < (marked g).fin.length := lt_length_of_getD_ne _ j true (by rw [hj]; simp)
  have hlen : (marked g).fin.length = g.fin.length := by simp [marked]
  have hne : g.idx ≠ j := by
    intro e; subst e
    rw [marked_getD_self g hidx] at hj; cases hj
  rw [marked_getD_ne g j hne] at hj
  have hgt : g.idx < j := by
    false_or_by_contra
    rename_i hn
    have := hS1 j (by omega)
    rw [hj] at this; cases this
  have hlt : g.idx + 1 < g.fin.length := by omega
  refine ⟨?_, hlt⟩
  show (if (marked g).fin.getD g.idx true = true then (g.idx + 1) % (marked g).fin.length else g.idx)
    = g.idx + 1
  rw [marked_getD_self g hidx, if_pos rfl, hlen, Nat.mod_eq_of_lt hlt]

theorem Inv_yield (s : Strategy) (g : MG) (x : Nat) (rest : List Nat) (c : Nat) (hI : Inv s g)
    (_hsrc : g.srcs.getD g.idx [] = x :: rest) : Inv s (yieldStep s g rest c) := by
  obtain ⟨hB, hS⟩ := hI
  obtain ⟨hlen, hcur, hemp⟩ := hB
  have hidx : g.idx < g.fin.length := Base.idx_lt ⟨hlen, hcur, hemp⟩
  refine ⟨⟨?_, ?_, ?_⟩, ?_⟩
  · simp [yieldStep, hlen]
  · cases s with
    | sequential => rw [seq_yield_idx g rest c hcur]; exact hcur
    | interleaved => exact (nextUnfinished_spec g.fin g.idx hidx ⟨_, hcur⟩).1
    | weighted => exact weighted_spec g.fin g.idx c ⟨_, hcur⟩
  · intro i hi
    have hne : g.idx ≠ i := by
      intro e; subst e
      simp only [yieldStep] at hi
      rw [hcur] at hi; cases hi
    simp only [yieldStep]
    rw [getD_set_ne _ _ _ _ _ hne]
    exact hemp i hi
  · intro hs
    subst hs
    have := hS rfl
    unfold SeqExtra at this ⊢
    rw [seq_yield_idx g rest c hcur]
    exact this

theorem Inv_mark (s : Strategy) (g : MG) (c : Nat) (hI : Inv s g)
    (hsrc : g.srcs.getD g.idx [] = []) (hall : ¬ allFinished (marked g) = true) :
    Inv s (markStep s g c) := by
  have hI0 := hI
  obtain ⟨hB, hS⟩ := hI
  obtain ⟨hlen, hcur, hemp⟩ := hB
  have hidx : g.idx < g.fin.length := Base.idx_lt ⟨hlen, hcur, hemp⟩
  have hmlen : (marked g).fin.length = g.fin.length := by simp [marked]
  have hex := marked_exists g hall
  refine ⟨⟨?_, ?_, ?_⟩, ?_⟩
  · simp [markStep, marked, hlen]
  · cases s with
    | sequential =>
      obtain ⟨e, hlt⟩ := seq_mark_idx g c hI0 hall
      rw [e]
      show (marked g).fin.getD (g.idx + 1) true = false
      rw [marked_getD_ne g _ (by omega)]
      exact (hS rfl).2 _ (by omega) hlt
    | interleaved => exact (nextUnfinished_spec (marked g).fin g.idx (by omega) hex).1
    | weighted => exact weighted_spec (marked g).fin g.idx c hex
  · intro i hi
    show g.srcs.getD i [] = []
    by_cases hne : g.idx = i
    · subst hne; exact hsrc
    · apply hemp
      rw [← marked_getD_ne g i hne]
      exact hi
  · intro hs
    subst hs
    obtain ⟨e, hlt⟩ := seq_mark_idx g c hI0 hall
    obtain ⟨hS1, hS2⟩ := hS rfl
    unfold SeqExtra
    rw [e]
    constructor
    · intro i hi
      show (marked g).fin.getD i true = true
      by_cases hne : g.idx = i
      · subst hne; exact marked_getD_self g hidx
      · rw [marked_getD_ne g i hne]; exact hS1 i (by omega)
    · intro i hi1 hi2
      show (marked g).fin.getD i true = false
      rw [marked_getD_ne g i (by omega)]
      exact hS2 i (by omega) (by simpa [markStep, marked] using hi2)

end Tu.MultiGenL
