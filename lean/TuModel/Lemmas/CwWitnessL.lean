/-
  `cwWitness` (Model/Whitespace.lean) returns a cluster list exactly when `cwMatch` accepts, and the list is
  an output of the function model `corruptWsAux` under a decision list the flags allow.
-/
import TuModel.Lemmas.CwMatchL
namespace Tu

/-! one-step unfoldings -/
theorem cwWitness_nil (f : CwFlags) (first prevWs : Bool) (out : List Nat) :
    cwWitness f [] first prevWs out = if out.isEmpty then some [] else none := by rw [cwWitness]

theorem cwWitness_ws (f : CwFlags) {c : List Nat} (cs : List (List Nat)) (first prevWs : Bool)
    (out : List Nat) (hw : isWsCl c = true) :
    cwWitness f (c :: cs) first prevWs out =
      (if f.mayDel then cwWitness f cs false true out else none).orElse (fun _ =>
        if !f.mustDel && c.isPrefixOf out then
          (cwWitness f cs false true (out.drop c.length)).map (c :: ·) else none) := by
  rw [cwWitness, if_pos hw]

theorem cwWitness_nonws (f : CwFlags) {c : List Nat} (cs : List (List Nat)) (first prevWs : Bool)
    (out : List Nat) (hw : isWsCl c = false) :
    cwWitness f (c :: cs) first prevWs out =
      (if (!first && !prevWs) && f.mayIns && (32 :: c).isPrefixOf out then
          (cwWitness f cs false false (out.drop (c.length + 1))).map (fun r => sp :: c :: r)
        else none).orElse (fun _ =>
        if (!(!first && !prevWs) || !f.mustIns) && c.isPrefixOf out then
          (cwWitness f cs false false (out.drop c.length)).map (c :: ·) else none) := by
  rw [cwWitness, if_neg (by simp [hw])]

theorem orElse_isSome' {α} (a : Option α) (b : Unit → Option α) :
    (a.orElse b).isSome = (a.isSome || (b ()).isSome) := by
  cases a <;> simp [Option.orElse]

theorem orElse_eq_some' {α} {a : Option α} {b : Unit → Option α} {x : α}
    (h : a.orElse b = some x) : a = some x ∨ (a = none ∧ b () = some x) := by
  cases a with
  | none => exact Or.inr ⟨rfl, by simpa [Option.orElse] using h⟩
  | some y => exact Or.inl (by simpa [Option.orElse] using h)

theorem ite_none_isSome {α} (p : Bool) (a : Option α) :
    (if p = true then a else none).isSome = (p && a.isSome) := by
  cases p <;> simp

theorem ite_none_eq_some {α} {p : Bool} {a : Option α} {x : α}
    (h : (if p = true then a else none) = some x) : p = true ∧ a = some x := by
  cases p <;> simp_all

/-- the witness exists exactly when the output is accepted (arbitrary flags, generalised over the position
flags) -/
theorem cwWitnessAux_isSome (f : CwFlags) (s : List (List Nat)) :
    ∀ (first prevWs : Bool) (out : List Nat),
      (cwWitness f s first prevWs out).isSome = cwMatch f s first prevWs out := by
  induction s with
  | nil =>
    intro first prevWs out
    rw [cwWitness_nil, cwMatch_nil]
    cases out.isEmpty <;> simp
  | cons c cs ih =>
    intro first prevWs out
    by_cases hw : isWsCl c = true
    · rw [cwWitness_ws f cs first prevWs out hw, cwMatch_ws f cs first prevWs out hw,
        orElse_isSome', ite_none_isSome, ite_none_isSome, Option.isSome_map, ih, ih]
    · have hw' : isWsCl c = false := by simpa using hw
      rw [cwWitness_nonws f cs first prevWs out hw', cwMatch_nonws f cs first prevWs out hw',
        orElse_isSome', ite_none_isSome, ite_none_isSome, Option.isSome_map, Option.isSome_map, ih, ih]

/-- the witness spells `out` and is an output of the function model for allowed decisions (consistent
flags, generalised over the position flags) -/
theorem cwWitnessAux_spec (f : CwFlags) (hf : f.consistent = true) (s : List (List Nat)) :
    ∀ (first prevWs : Bool) (out : List Nat) (inp : List (List Nat)),
      cwWitness f s first prevWs out = some inp →
      inp.flatten = out ∧
      ∃ ds : List (Bool × Bool), ds.length = s.length ∧ (∀ d ∈ ds, f.allows d = true) ∧
        corruptWsAux s ds first prevWs = inp := by
  induction s with
  | nil =>
    intro first prevWs out inp h
    rw [cwWitness_nil] at h
    by_cases he : out.isEmpty = true
    · rw [if_pos he] at h
      cases h
      exact ⟨(List.isEmpty_iff.mp he).symm, [], rfl, by simp, corruptWsAux_nil _ _ _⟩
    · rw [if_neg he] at h; cases h
  | cons c cs ih =>
    intro first prevWs out inp h
    have cons_allowed : ∀ (d : Bool × Bool) (ds : List (Bool × Bool)), f.allows d = true →
        (∀ x ∈ ds, f.allows x = true) → ∀ x ∈ d :: ds, f.allows x = true := by
      intro d ds hd hds x hx
      rcases List.mem_cons.mp hx with rfl | hx
      · exact hd
      · exact hds x hx
    by_cases hw : isWsCl c = true
    · rw [cwWitness_ws f cs first prevWs out hw] at h
      rcases orElse_eq_some' h with h1 | ⟨_, h2⟩
      · obtain ⟨hm, h1⟩ := ite_none_eq_some h1
        obtain ⟨hfl, ds, hl, ha, he⟩ := ih _ _ _ _ h1
        refine ⟨hfl, (true, f.mustIns) :: ds, by simp [hl], cons_allowed _ _ (f.allows_del hf hm) ha, ?_⟩
        rw [corruptWsAux_ws cs _ ds first prevWs hw]
        simpa using he
      · obtain ⟨hcond, h2⟩ := ite_none_eq_some h2
        simp only [Bool.and_eq_true, Bool.not_eq_true'] at hcond
        obtain ⟨hnm, hp⟩ := hcond
        obtain ⟨r, hr, rfl⟩ := Option.map_eq_some_iff.mp h2
        obtain ⟨hfl, ds, hl, ha, he⟩ := ih _ _ _ _ hr
        refine ⟨?_, (false, f.mustIns) :: ds, by simp [hl], cons_allowed _ _ (f.allows_keep hf hnm) ha, ?_⟩
        · rw [List.flatten_cons, hfl]; exact isPrefixOf_split hp
        · rw [corruptWsAux_ws cs _ ds first prevWs hw]
          simp [he]
    · have hw' : isWsCl c = false := by simpa using hw
      rw [cwWitness_nonws f cs first prevWs out hw'] at h
      rcases orElse_eq_some' h with h1 | ⟨_, h2⟩
      · obtain ⟨hcond, h1⟩ := ite_none_eq_some h1
        simp only [Bool.and_eq_true] at hcond
        obtain ⟨⟨hci, hm⟩, hp⟩ := hcond
        obtain ⟨r, hr, rfl⟩ := Option.map_eq_some_iff.mp h1
        obtain ⟨hfl, ds, hl, ha, he⟩ := ih _ _ _ _ hr
        refine ⟨?_, (f.mustDel, true) :: ds, by simp [hl], cons_allowed _ _ (f.allows_ins hf hm) ha, ?_⟩
        · have := isPrefixOf_split hp
          simp only [List.flatten_cons, hfl, sp]
          simpa using this
        · rw [corruptWsAux_nonws cs _ ds first prevWs hw']
          have hc : ((f.mustDel, true).2 && !first && !prevWs) = true := by
            simpa [Bool.and_assoc] using hci
          rw [if_pos hc, he]
      · obtain ⟨hcond, h2⟩ := ite_none_eq_some h2
        simp only [Bool.and_eq_true, Bool.or_eq_true] at hcond
        obtain ⟨hci, hp⟩ := hcond
        obtain ⟨r, hr, rfl⟩ := Option.map_eq_some_iff.mp h2
        obtain ⟨hfl, ds, hl, ha, he⟩ := ih _ _ _ _ hr
        have hflat : (c :: r).flatten = out := by
          rw [List.flatten_cons, hfl]; exact isPrefixOf_split hp
        by_cases hcan : (!first && !prevWs) = true
        · have hmi : f.mustIns = false := by
            rcases hci with h1 | h1
            · rw [hcan] at h1; simp at h1
            · simpa using h1
          refine ⟨hflat, (f.mustDel, false) :: ds, by simp [hl],
            cons_allowed _ _ (f.allows_noins hf hmi) ha, ?_⟩
          rw [corruptWsAux_nonws cs _ ds first prevWs hw', if_neg (by simp), he]
        · refine ⟨hflat, (f.mustDel, f.mustIns) :: ds, by simp [hl],
            cons_allowed _ _ (f.allows_any hf) ha, ?_⟩
          rw [corruptWsAux_nonws cs _ ds first prevWs hw']
          have hc : ¬ ((f.mustDel, f.mustIns).2 && !first && !prevWs) = true := by
            intro hh
            apply hcan
            simp only [Bool.and_eq_true] at hh ⊢
            exact ⟨hh.1.2, hh.2⟩
          rw [if_neg hc, he]

end Tu
