/-
  Helper lemmas of the line reader model (Model/Lines.lean); the properties are in Props/C07.lean.
-/
import TuModel.Model.Lines
namespace Tu.LinesL
open Tu

theorem splitLFGo_nil (acc : List Nat) :
    splitLFGo [] acc = if acc = [] then [] else [acc.reverse] := by rw [splitLFGo]

theorem splitLFGo_lf (rest acc : List Nat) :
    splitLFGo (10 :: rest) acc = (10 :: acc).reverse :: splitLFGo rest [] := by
  rw [splitLFGo]; simp

theorem splitLFGo_other (c : Nat) (rest acc : List Nat) (h : c ≠ 10) :
    splitLFGo (c :: rest) acc = splitLFGo rest (c :: acc) := by
  rw [splitLFGo]; simp [h]

theorem splitLFGo_flatten (b : List Nat) : ∀ acc, (splitLFGo b acc).flatten = acc.reverse ++ b := by
  induction b with
  | nil =>
    intro acc
    rw [splitLFGo_nil]
    by_cases h : acc = []
    · simp [h]
    · simp [h]
  | cons c rest ih =>
    intro acc
    by_cases h : c = 10
    · subst h
      rw [splitLFGo_lf, List.flatten_cons, ih]
      simp
    · rw [splitLFGo_other c rest acc h, ih]
      simp

theorem splitLFGo_ne_nil (b : List Nat) : ∀ acc, ∀ c ∈ splitLFGo b acc, c ≠ [] := by
  induction b with
  | nil =>
    intro acc c hc
    rw [splitLFGo_nil] at hc
    by_cases h : acc = []
    · simp [h] at hc
    · simp [h] at hc
      subst hc
      simpa using h
  | cons x rest ih =>
    intro acc c hc
    by_cases h : x = 10
    · subst h
      rw [splitLFGo_lf] at hc
      rcases List.mem_cons.mp hc with hc | hc
      · subst hc; simp
      · exact ih [] c hc
    · rw [splitLFGo_other x rest acc h] at hc
      exact ih _ c hc

/-- a line without line feed, then its line feed: one chunk -/
theorem splitLFGo_line (l : List Nat) (h : 10 ∉ l) (rest : List Nat) : ∀ acc,
    splitLFGo (l ++ 10 :: rest) acc = (acc.reverse ++ l ++ [10]) :: splitLFGo rest [] := by
  induction l with
  | nil =>
    intro acc
    rw [List.nil_append, splitLFGo_lf]
    simp
  | cons c l ih =>
    intro acc
    have hc : c ≠ 10 := fun e => h (by simp [e])
    have hl : 10 ∉ l := fun e => h (List.mem_cons_of_mem _ e)
    rw [List.cons_append, splitLFGo_other c _ acc hc, ih hl]
    simp

/-- an unterminated tail: one chunk -/
theorem splitLFGo_tail (l : List Nat) (h : 10 ∉ l) : ∀ acc,
    splitLFGo l acc = if acc.reverse ++ l = [] then [] else [acc.reverse ++ l] := by
  induction l with
  | nil =>
    intro acc
    rw [splitLFGo_nil]
    simp
  | cons c l ih =>
    intro acc
    have hc : c ≠ 10 := fun e => h (by simp [e])
    have hl : 10 ∉ l := fun e => h (List.mem_cons_of_mem _ e)
    rw [splitLFGo_other c _ acc hc, ih hl]
    simp

theorem splitLF_line (l : List Nat) (h : 10 ∉ l) (rest : List Nat) :
    splitLF (l ++ 10 :: rest) = (l ++ [10]) :: splitLF rest := by
  unfold splitLF
  rw [splitLFGo_line l h rest []]
  simp

theorem splitLF_tail (l : List Nat) (h : 10 ∉ l) (hne : l ≠ []) : splitLF l = [l] := by
  unfold splitLF
  rw [splitLFGo_tail l h []]
  simp [hne]

theorem splitLF_nil : splitLF [] = [] := by
  unfold splitLF; rw [splitLFGo_nil]; simp

theorem splitLF_lines (ls : List (List Nat)) (h : ∀ l ∈ ls, 10 ∉ l) (tail : List Nat) :
    splitLF (ls.flatMap (· ++ [10]) ++ tail) = ls.map (· ++ [10]) ++ splitLF tail := by
  induction ls with
  | nil => simp
  | cons l ls ih =>
    have h1 : 10 ∉ l := h l (by simp)
    have h2 : ∀ l ∈ ls, 10 ∉ l := fun x hx => h x (List.mem_cons_of_mem _ hx)
    rw [List.flatMap_cons, List.append_assoc, List.append_assoc, List.singleton_append,
      splitLF_line l h1, ih h2]
    simp

theorem lossyLine_line (l : List Nat) : lossyLine (l ++ [10]) = stripCR l := by
  unfold lossyLine
  rw [List.dropLast_concat]

end Tu.LinesL
