/-
  Helper lemmas for C20 (frequency dictionary): `tokLt` / `entryLt` are strict orders, total on
  distinct keys; ranks; pigeonhole for `topK_length`; the cross-multiplication preorder for `closestSpec`.
-/
import TuModel.Model.Dict
namespace Tu.DictL
open Tu

/-! ### `eraseDups` -/

theorem nodup_eraseDups_aux {α : Type} [BEq α] [LawfulBEq α] (n : Nat) :
    ∀ (l : List α), l.length ≤ n → l.eraseDups.Nodup := by
  induction n with
  | zero =>
    intro l hl
    have : l = [] := List.eq_nil_of_length_eq_zero (by omega)
    subst this; simp
  | succ n ih =>
    intro l hl
    cases l with
    | nil => simp
    | cons a as =>
      rw [List.eraseDups_cons, List.nodup_cons]
      refine ⟨?_, ih _ ?_⟩
      · rw [List.mem_eraseDups, List.mem_filter]
        simp
      · have := List.length_filter_le (fun b => !b == a) as
        simp only [List.length_cons] at hl
        omega

theorem nodup_eraseDups {α : Type} [BEq α] [LawfulBEq α] (l : List α) : l.eraseDups.Nodup :=
  nodup_eraseDups_aux l.length l (Nat.le_refl _)

/-! ### `tokLt` -/

theorem tokLt_irrefl (a : Tok) : tokLt a a = false := by
  induction a with
  | nil => rfl
  | cons x xs ih => simp [tokLt, ih]

theorem tokLt_trans : ∀ (a b c : Tok), tokLt a b = true → tokLt b c = true → tokLt a c = true
  | [], [], _, h, _ => by simp [tokLt] at h
  | [], _ :: _, [], _, h => by simp [tokLt] at h
  | [], _ :: _, _ :: _, _, _ => by simp [tokLt]
  | _ :: _, [], _, h, _ => by simp [tokLt] at h
  | _ :: _, _ :: _, [], _, h => by simp [tokLt] at h
  | x :: xs, y :: ys, z :: zs, h1, h2 => by
    simp only [tokLt, Bool.or_eq_true, Bool.and_eq_true, decide_eq_true_eq, beq_iff_eq] at h1 h2 ⊢
    rcases h1 with h1 | ⟨e1, h1⟩
    · rcases h2 with h2 | ⟨e2, _⟩
      · left; omega
      · left; omega
    · rcases h2 with h2 | ⟨e2, h2⟩
      · left; omega
      · right; exact ⟨by omega, tokLt_trans xs ys zs h1 h2⟩

theorem tokLt_tri : ∀ (a b : Tok), tokLt a b = true ∨ a = b ∨ tokLt b a = true
  | [], [] => by simp
  | [], _ :: _ => by simp [tokLt]
  | _ :: _, [] => by simp [tokLt]
  | x :: xs, y :: ys => by
    simp only [tokLt, Bool.or_eq_true, Bool.and_eq_true, decide_eq_true_eq, beq_iff_eq, List.cons.injEq]
    rcases Nat.lt_trichotomy x y with h | h | h
    · left; left; exact h
    · rcases tokLt_tri xs ys with h' | h' | h'
      · left; right; exact ⟨h, h'⟩
      · right; left; exact ⟨h, h'⟩
      · right; right; right; exact ⟨h.symm, h'⟩
    · right; right; left; exact h

/-! ### `entryLt` -/

theorem entryLt_iff (x y : Tok × Nat) :
    entryLt x y = true ↔ x.2 < y.2 ∨ (x.2 = y.2 ∧ tokLt x.1 y.1 = true) := by
  simp [entryLt]

theorem entryLt_irrefl (x : Tok × Nat) : entryLt x x = false := by
  simp [entryLt, tokLt_irrefl]

theorem entryLt_trans (x y z : Tok × Nat) (h1 : entryLt x y = true) (h2 : entryLt y z = true) :
    entryLt x z = true := by
  rw [entryLt_iff] at h1 h2 ⊢
  rcases h1 with h1 | ⟨e1, h1⟩
  · rcases h2 with h2 | ⟨e2, _⟩
    · left; omega
    · left; omega
  · rcases h2 with h2 | ⟨e2, h2⟩
    · left; omega
    · right; exact ⟨by omega, tokLt_trans _ _ _ h1 h2⟩

theorem entryLt_of_freq_lt (x y : Tok × Nat) (h : x.2 < y.2) : entryLt x y = true := by
  rw [entryLt_iff]; exact Or.inl h

/-- total on entries with distinct keys -/
theorem entryLt_tri_of_key_ne (x y : Tok × Nat) (h : x.1 ≠ y.1) : entryLt x y = true ∨ entryLt y x = true := by
  rw [entryLt_iff, entryLt_iff]
  rcases Nat.lt_trichotomy x.2 y.2 with h' | h' | h'
  · exact Or.inl (Or.inl h')
  · rcases tokLt_tri x.1 y.1 with t | t | t
    · exact Or.inl (Or.inr ⟨h', t⟩)
    · exact absurd t h
    · exact Or.inr (Or.inr ⟨h'.symm, t⟩)
  · exact Or.inr (Or.inl h')

/-! ### ranks -/

theorem rankOf_le_of_lt (l : List (Tok × Nat)) (x y : Tok × Nat) (h : entryLt x y = true) :
    rankOf l y ≤ rankOf l x := by
  unfold rankOf
  induction l with
  | nil => simp
  | cons z l ih =>
    simp only [List.filter_cons]
    by_cases hz : entryLt y z = true
    · have := entryLt_trans x y z h hz
      simp [hz, this]; exact ih
    · have hz' : entryLt y z = false := by simpa using hz
      simp only [hz', Bool.false_eq_true, if_false]
      split
      · simp; omega
      · exact ih

/-- a strictly greater member has a strictly smaller rank -/
theorem rankOf_lt_of_lt (l : List (Tok × Nat)) (x y : Tok × Nat) (h : entryLt x y = true) (hy : y ∈ l) :
    rankOf l y < rankOf l x := by
  induction l with
  | nil => cases hy
  | cons z l ih =>
    have hle := rankOf_le_of_lt l x y h
    unfold rankOf at hle ih ⊢
    simp only [List.filter_cons]
    rcases List.mem_cons.1 hy with rfl | hy
    · simp [entryLt_irrefl, h]; omega
    · have ih := ih hy
      by_cases hz : entryLt y z = true
      · have := entryLt_trans x y z h hz
        simp [hz, this]; exact ih
      · have hz' : entryLt y z = false := by simpa using hz
        simp only [hz', Bool.false_eq_true, if_false]
        split
        · simp; omega
        · exact ih

theorem rankOf_lt_length (l : List (Tok × Nat)) (x : Tok × Nat) (hx : x ∈ l) : rankOf l x < l.length := by
  unfold rankOf
  induction l with
  | nil => cases hx
  | cons z l ih =>
    simp only [List.filter_cons, List.length_cons]
    rcases List.mem_cons.1 hx with rfl | hx
    · simp [entryLt_irrefl]
      exact Nat.lt_succ_of_le (List.length_filter_le _ _)
    · have := ih hx
      split
      · simp only [List.length_cons]; omega
      · omega

/-! ### pigeonhole -/

theorem perm_range_of_nodup (r : List Nat) (hnd : r.Nodup) (hlt : ∀ j ∈ r, j < r.length) :
    r.Perm (List.range r.length) := by
  rw [List.perm_ext_iff_of_nodup hnd List.nodup_range]
  intro j
  constructor
  · intro hj; exact List.mem_range.2 (hlt j hj)
  · intro hj
    have hj' : j < r.length := List.mem_range.1 hj
    apply Classical.byContradiction
    intro hnot
    have hsub : r ⊆ (List.range r.length).erase j := by
      intro a ha
      have : a ≠ j := fun e => hnot (e ▸ ha)
      exact (List.mem_erase_of_ne this).2 (List.mem_range.2 (hlt a ha))
    have := hnd.length_le_of_subset hsub
    rw [List.length_erase] at this
    simp [hj] at this
    omega

theorem filter_lt_range (n k : Nat) : ((List.range n).filter (fun j => decide (j < k))).length = min k n := by
  induction n with
  | zero => simp
  | succ n ih =>
    rw [List.range_succ, List.filter_append, List.length_append, ih]
    by_cases h : n < k
    · simp [h]; omega
    · simp [h]; omega


/-- with distinct keys the ranks are exactly `0 .. n-1` -/
theorem rank_perm_range (l : List (Tok × Nat)) (hnd : (l.map (·.1)).Nodup) :
    (l.map (rankOf l)).Perm (List.range l.length) := by
  have hnd' : (l.map (rankOf l)).Nodup := by
    unfold List.Nodup at hnd ⊢
    rw [List.pairwise_map] at hnd ⊢
    refine List.Pairwise.imp_of_mem ?_ hnd
    intro a b ha hb hab
    rcases entryLt_tri_of_key_ne a b hab with h | h
    · exact Nat.ne_of_gt (rankOf_lt_of_lt l a b h hb)
    · exact Nat.ne_of_lt (rankOf_lt_of_lt l b a h ha)
  have := perm_range_of_nodup (l.map (rankOf l)) hnd' (by
    intro j hj
    obtain ⟨x, hx, rfl⟩ := List.mem_map.1 hj
    simpa using rankOf_lt_length l x hx)
  simpa using this

theorem filter_rank_length (l : List (Tok × Nat)) (k : Nat) (hnd : (l.map (·.1)).Nodup) :
    (l.filter (fun x => decide (rankOf l x < k))).length = min k l.length := by
  have h1 : (l.filter (fun x => decide (rankOf l x < k))).length
      = ((l.map (rankOf l)).filter (fun j => decide (j < k))).length := by
    rw [List.filter_map, List.length_map]; rfl
  rw [h1, ((rank_perm_range l hnd).filter _).length_eq, filter_lt_range]


/-! ### the cross-multiplication preorder and `closestSpec` -/

/-- `a ≤ b` for fractions `a.1 / a.2`, `b.1 / b.2` -/
abbrev qle (a b : Nat × Nat) : Prop := a.1 * b.2 ≤ b.1 * a.2

theorem qle_refl (a : Nat × Nat) : qle a a := Nat.le_refl _

theorem qle_trans {a b c : Nat × Nat} (hb : 0 < b.2) (h1 : qle a b) (h2 : qle b c) : qle a c := by
  unfold qle at *
  apply Nat.le_of_mul_le_mul_right _ hb
  calc a.1 * c.2 * b.2 = (a.1 * b.2) * c.2 := by
        rw [Nat.mul_assoc, Nat.mul_comm c.2 b.2, ← Nat.mul_assoc]
    _ ≤ (b.1 * a.2) * c.2 := Nat.mul_le_mul_right _ h1
    _ = (b.1 * c.2) * a.2 := by rw [Nat.mul_assoc, Nat.mul_comm a.2 c.2, ← Nat.mul_assoc]
    _ ≤ (c.1 * b.2) * a.2 := Nat.mul_le_mul_right _ h2
    _ = c.1 * a.2 * b.2 := by rw [Nat.mul_assoc, Nat.mul_comm b.2 a.2, ← Nat.mul_assoc]

theorem qle_total (a b : Nat × Nat) : qle a b ∨ qle b a := Nat.le_total _ _

/-- the minimum fold of `closestSpec` -/
def minD {α : Type} (d : α → Nat × Nat) (l : List α) (m0 : Nat × Nat) : Nat × Nat :=
  l.foldl (fun m e => if qle (d e) m then (if qle m (d e) then m else d e) else m) m0

theorem minD_spec {α : Type} (d : α → Nat × Nat) (hd : ∀ e, 0 < (d e).2) (l : List α) :
    ∀ (m0 : Nat × Nat), 0 < m0.2 →
      0 < (minD d l m0).2 ∧ qle (minD d l m0) m0 ∧ ∀ e ∈ l, qle (minD d l m0) (d e) := by
  induction l with
  | nil => intro m0 h0; exact ⟨h0, qle_refl _, by simp⟩
  | cons e l ih =>
    intro m0 h0
    have hstep : minD d (e :: l) m0 =
        minD d l (if qle (d e) m0 then (if qle m0 (d e) then m0 else d e) else m0) := rfl
    rw [hstep]
    generalize hm : (if qle (d e) m0 then (if qle m0 (d e) then m0 else d e) else m0) = m1
    have hm1 : 0 < m1.2 ∧ qle m1 m0 ∧ qle m1 (d e) := by
      subst hm
      by_cases c1 : qle (d e) m0
      · by_cases c2 : qle m0 (d e)
        · rw [if_pos c1, if_pos c2]; exact ⟨h0, qle_refl _, c2⟩
        · rw [if_pos c1, if_neg c2]; exact ⟨hd e, c1, qle_refl _⟩
      · rw [if_neg c1]
        exact ⟨h0, qle_refl _, (qle_total m0 (d e)).resolve_right c1⟩
    obtain ⟨p, q1, q2⟩ := ih m1 hm1.1
    refine ⟨p, qle_trans hm1.1 q1 hm1.2.1, ?_⟩
    intro e' he'
    rcases List.mem_cons.1 he' with rfl | he'
    · exact qle_trans hm1.1 q1 hm1.2.2
    · exact q2 e' he'

theorem le_foldl_max (l : List Nat) : ∀ (a : Nat), a ≤ l.foldl max a ∧ ∀ x ∈ l, x ≤ l.foldl max a := by
  induction l with
  | nil => intro a; simp
  | cons y l ih =>
    intro a
    obtain ⟨h1, h2⟩ := ih (max a y)
    simp only [List.foldl_cons]
    refine ⟨by omega, ?_⟩
    intro x hx
    rcases List.mem_cons.1 hx with rfl | hx
    · omega
    · exact h2 x hx

/-- `closestSpec` over an abstract distance function -/
def closestGen {α : Type} (d : α × Nat → Nat × Nat) (entries : List (α × Nat)) : Option (List Nat × Nat) :=
  match entries with
  | [] => none
  | e0 :: _ =>
    let best := minD d entries (d e0)
    let closest := entries.zipIdx.filter (fun (e, _) => decide (qle (d e) best) && decide (qle best (d e)))
    let f := (closest.map (fun (e, _) => e.2)).foldl max 0
    some ((closest.filter (fun (e, _) => e.2 == f)).map (·.2), f)

theorem closestSpec_eq (q : List (List Nat)) (es : List (List (List Nat) × Nat)) (norm : Bool) :
    closestSpec q es norm = closestGen (fun e =>
      (editDistance { swap := false, sid := false } q e.1, if norm then normDen q e.1 else 1)) es := by
  cases es <;> rfl

theorem closestGen_ok {α : Type} (d : α × Nat → Nat × Nat) (hd : ∀ e, 0 < (d e).2) (es : List (α × Nat))
    (idxs : List Nat) (f : Nat) (h : closestGen d es = some (idxs, f)) :
    ∀ i ∈ idxs, ∃ e, es[i]? = some e ∧ e.2 = f ∧
      ∀ e' ∈ es, qle (d e) (d e') ∧ (qle (d e') (d e) → e'.2 ≤ f) := by
  cases es with
  | nil => simp [closestGen] at h
  | cons e0 es =>
    simp only [closestGen, Option.some.injEq, Prod.mk.injEq] at h
    obtain ⟨hb0, hbm, hbl⟩ := minD_spec d hd (e0 :: es) (d e0) (hd e0)
    generalize minD d (e0 :: es) (d e0) = best at h hb0 hbm hbl
    obtain ⟨rfl, hf⟩ := h
    intro i hi
    simp only [List.mem_map, List.mem_filter, Bool.and_eq_true, decide_eq_true_eq, beq_iff_eq] at hi
    obtain ⟨⟨e, j⟩, ⟨⟨hmem, hc1, hc2⟩, hef⟩, rfl⟩ := hi
    rw [List.mem_zipIdx_iff_getElem?] at hmem
    refine ⟨e, hmem, by rw [← hf]; exact hef, ?_⟩
    intro e' he'
    refine ⟨qle_trans hb0 hc1 (hbl e' he'), ?_⟩
    intro hle
    have hc1' : qle (d e') best := qle_trans (hd e) hle hc1
    obtain ⟨j', hj'⟩ := List.getElem?_of_mem he'
    have hmem' : (e', j') ∈ (e0 :: es).zipIdx := by
      rw [List.mem_zipIdx_iff_getElem?]; exact hj'
    rw [← hf]
    apply (le_foldl_max _ 0).2
    rw [List.mem_map]
    refine ⟨(e', j'), ?_, rfl⟩
    rw [List.mem_filter]
    exact ⟨hmem', by simp [hc1', hbl e' he']⟩

theorem normDen_pos (a b : List (List Nat)) : 0 < normDen a b := by
  unfold normDen; omega

end Tu.DictL
