/-
  Lemmas for the incremental BPE trainer model, part 2: the single-word core.
  `rep` = structural form of `replace_pair_in_word`; `decsN` / `incsN` = the sequences of pairs decremented / incremented
  by the two scanning loops of `update_stats` (normal form); the counting lemmas: for every pair `q ≠ (x, y)`
      count q (pairs new) + count q decs = count q (pairs old) + count q incs,     count q decs ≤ count q (pairs old).
-/
import TuModel.Lemmas.BpeTrainIncL1
namespace Tu.BpeTrainIncL
open Tu

abbrev Tok := List Nat

/-! ### counting -/

def cnt (q : BPair) (l : List BPair) : Nat := (l.filter (· == q)).length

theorem wordPairCount_eq (w : List Tok) (q : BPair) : wordPairCount w q = cnt q (wordPairs w) := rfl

@[simp] theorem cnt_nil (q : BPair) : cnt q [] = 0 := rfl
theorem cnt_cons (q a : BPair) (l : List BPair) : cnt q (a :: l) = (if a = q then 1 else 0) + cnt q l := by
  unfold cnt
  rw [List.filter_cons]
  by_cases h : a = q
  · subst h; simp; omega
  · have : (a == q) = false := by simpa using h
    simp [this, h]
@[simp] theorem cnt_append (q : BPair) (l1 l2 : List BPair) : cnt q (l1 ++ l2) = cnt q l1 + cnt q l2 := by
  unfold cnt
  rw [List.filter_append, List.length_append]

theorem cnt_eq_zero_of_not_mem (q : BPair) (l : List BPair) (h : q ∉ l) : cnt q l = 0 := by
  unfold cnt
  rw [List.length_eq_zero_iff, List.filter_eq_nil_iff]
  intro a ha hq
  simp at hq
  subst hq
  exact h ha

theorem cnt_pos_mem (q : BPair) (l : List BPair) (h : 0 < cnt q l) : q ∈ l := by
  by_cases hm : q ∈ l
  · exact hm
  · rw [cnt_eq_zero_of_not_mem q l hm] at h; omega

/-! ### pairs -/

theorem wordPairs_nil : wordPairs [] = [] := rfl
theorem wordPairs_single (a : Tok) : wordPairs [a] = [] := rfl
theorem wordPairs_cons2 (a b : Tok) (r : List Tok) : wordPairs (a :: b :: r) = (a, b) :: wordPairs (b :: r) := rfl

def optPair (prev : Option Tok) (a : Tok) : List BPair :=
  match prev with
  | some p => [(p, a)]
  | none => []

def headPair (a : Tok) (r : List Tok) : List BPair :=
  match r with
  | c :: _ => [(a, c)]
  | [] => []

theorem wordPairs_cons (a : Tok) (l : List Tok) : wordPairs (a :: l) = headPair a l ++ wordPairs l := by
  cases l with
  | nil => rfl
  | cons b r => rfl

/-- pairs of a word with an optional token in front -/
def pairsP (prev : Option Tok) (w : List Tok) : List BPair :=
  match prev with
  | some p => wordPairs (p :: w)
  | none => wordPairs w

theorem pairsP_none (w : List Tok) : pairsP none w = wordPairs w := rfl
theorem pairsP_nil (prev : Option Tok) : pairsP prev [] = [] := by
  cases prev <;> rfl
theorem pairsP_cons (prev : Option Tok) (a : Tok) (l : List Tok) :
    pairsP prev (a :: l) = optPair prev a ++ headPair a l ++ wordPairs l := by
  cases prev with
  | none => simp [pairsP, optPair, wordPairs_cons]
  | some p => simp [pairsP, optPair, wordPairs_cons, headPair]

/-! ### `replace_pair_in_word`, structurally -/

def rep (x y : Tok) : List Tok → List Tok
  | [] => []
  | [a] => [a]
  | a :: b :: r => if a == x && b == y then (a ++ b) :: rep x y r else a :: rep x y (b :: r)

theorem rep_nil (x y : Tok) : rep x y [] = [] := by rw [rep]
theorem rep_single (x y a : Tok) : rep x y [a] = [a] := by rw [rep]
theorem rep_match (x y : Tok) (r : List Tok) : rep x y (x :: y :: r) = (x ++ y) :: rep x y r := by
  rw [rep]; simp
theorem rep_nomatch (x y a b : Tok) (r : List Tok) (h : ¬ (a = x ∧ b = y)) :
    rep x y (a :: b :: r) = a :: rep x y (b :: r) := by
  rw [rep]
  have : (a == x && b == y) = false := by
    rw [Bool.and_eq_false_iff]
    by_cases ha : a = x
    · right; simpa using fun hb => h ⟨ha, hb⟩
    · left; simpa using ha
  rw [this]; rfl

/-- the first token of the result -/
theorem rep_head (x y a : Tok) (l : List Tok) :
    ∃ t, rep x y (a :: l) = a :: t ∨ (a = x ∧ rep x y (a :: l) = (x ++ y) :: t) := by
  cases l with
  | nil => exact ⟨[], Or.inl (rep_single x y a)⟩
  | cons b r =>
    by_cases h : a = x ∧ b = y
    · obtain ⟨rfl, rfl⟩ := h
      exact ⟨_, Or.inr ⟨rfl, rep_match a b r⟩⟩
    · exact ⟨_, Or.inl (rep_nomatch x y a b r h)⟩

theorem rep_eq_replaceAux (x y : Tok) (hy : y ≠ []) :
    ∀ (w : List Tok) (last : Tok) (acc : List Tok),
      replacePairAux x y w (last :: acc) = acc.reverse ++ rep x y (last :: w) := by
  intro w
  induction w with
  | nil => intro last acc; rw [replacePairAux, rep_single]; simp
  | cons s rest ih =>
    intro last acc
    rw [replacePairAux]
    by_cases h : last = x ∧ s = y
    · obtain ⟨rfl, rfl⟩ := h
      simp only [beq_self_eq_true, Bool.and_self, if_true]
      rw [ih, rep_match]
      have : rep last s ((last ++ s) :: rest) = (last ++ s) :: rep last s rest := by
        cases rest with
        | nil => rw [rep_single, rep_nil]
        | cons b r =>
          apply rep_nomatch
          intro hh
          have := congrArg List.length hh.1
          simp at this
          exact hy this
      rw [this]
    · have hb : (last == x && s == y) = false := by
        rw [Bool.and_eq_false_iff]
        by_cases ha : last = x
        · right; simpa using fun hb => h ⟨ha, hb⟩
        · left; simpa using ha
      rw [hb]
      simp only [Bool.false_eq_true, if_false]
      rw [ih, rep_nomatch x y last s rest h]
      simp

theorem replacePairInWord_eq_rep (w : List Tok) (x y : Tok) (hy : y ≠ []) : replacePairInWord w x y = rep x y w := by
  unfold replacePairInWord
  cases w with
  | nil => rw [replacePairAux, rep_nil]; rfl
  | cons s rest =>
    rw [replacePairAux, rep_eq_replaceAux x y hy]
    simp

/-- a word without an occurrence of the pair is left alone -/
theorem rep_noop (x y : Tok) : ∀ (w : List Tok), cnt (x, y) (wordPairs w) = 0 → rep x y w = w := by
  intro w
  induction w with
  | nil => intro _; exact rep_nil x y
  | cons a l ih =>
    intro h
    cases l with
    | nil => exact rep_single x y a
    | cons b r =>
      rw [wordPairs_cons2, cnt_cons] at h
      have hne : ¬ (a = x ∧ b = y) := by
        intro hh
        obtain ⟨rfl, rfl⟩ := hh
        simp at h
      rw [rep_nomatch x y a b r hne, ih (by omega)]

theorem rep_flatten (x y : Tok) : ∀ (w : List Tok), (rep x y w).flatten = w.flatten := by
  intro w
  induction w using rep.induct x y with
  | case1 => rw [rep_nil]
  | case2 a => rw [rep_single]
  | case3 a b r h ih =>
    rw [rep, if_pos h, List.flatten_cons, ih]
    simp
  | case4 a b r h ih =>
    rw [rep, if_neg h, List.flatten_cons, ih]
    simp

/-- tokens of the result -/
theorem rep_mem (x y : Tok) : ∀ (w : List Tok) (t : Tok), t ∈ rep x y w → t ∈ w ∨ t = x ++ y := by
  intro w
  induction w using rep.induct x y with
  | case1 => intro t h; rw [rep_nil] at h; exact Or.inl h
  | case2 a => intro t h; rw [rep_single] at h; exact Or.inl h
  | case3 a b r h ih =>
    intro t ht
    rw [rep, if_pos h] at ht
    simp only [Bool.and_eq_true, beq_iff_eq] at h
    rcases List.mem_cons.mp ht with ht | ht
    · right; rw [ht, h.1, h.2]
    · rcases ih t ht with h1 | h1
      · left; exact List.mem_cons_of_mem _ (List.mem_cons_of_mem _ h1)
      · right; exact h1
  | case4 a b r h ih =>
    intro t ht
    rw [rep, if_neg h] at ht
    rcases List.mem_cons.mp ht with ht | ht
    · left; rw [ht]; simp
    · rcases ih t ht with h1 | h1
      · left; exact List.mem_cons_of_mem _ h1
      · right; exact h1

/-! ### the pairs touched by the two loops of `update_stats`, normal form -/

/-- pairs decremented by the old-word loop: for every merged occurrence its left neighbour pair (unless it is the right
neighbour pair of the previous occurrence, already emitted) and its right neighbour pair -/
def decsN (x y : Tok) : Option Tok → List Tok → List BPair
  | _, [] => []
  | _, [_] => []
  | prev, a :: b :: r =>
    if a == x && b == y then optPair prev a ++ headPair b r ++ decsN x y none r else decsN x y (some a) (b :: r)

/-- pairs incremented by the new-word loop -/
def incsN (m : Tok) : Option Tok → List Tok → List BPair
  | _, [] => []
  | prev, a :: r => if a == m then optPair prev a ++ headPair a r ++ incsN m none r else incsN m (some a) r

theorem decsN_nil (x y : Tok) (prev : Option Tok) : decsN x y prev [] = [] := by rw [decsN]
theorem decsN_single (x y a : Tok) (prev : Option Tok) : decsN x y prev [a] = [] := by rw [decsN]
theorem decsN_match (x y : Tok) (prev : Option Tok) (r : List Tok) :
    decsN x y prev (x :: y :: r) = optPair prev x ++ headPair y r ++ decsN x y none r := by
  rw [decsN]; simp
theorem decsN_nomatch (x y a b : Tok) (prev : Option Tok) (r : List Tok) (h : ¬ (a = x ∧ b = y)) :
    decsN x y prev (a :: b :: r) = decsN x y (some a) (b :: r) := by
  rw [decsN]
  have : (a == x && b == y) = false := by
    rw [Bool.and_eq_false_iff]
    by_cases ha : a = x
    · right; simpa using fun hb => h ⟨ha, hb⟩
    · left; simpa using ha
  rw [this]; rfl
theorem incsN_nil (m : Tok) (prev : Option Tok) : incsN m prev [] = [] := by rw [incsN]
theorem incsN_hit (m : Tok) (prev : Option Tok) (r : List Tok) :
    incsN m prev (m :: r) = optPair prev m ++ headPair m r ++ incsN m none r := by
  rw [incsN]; simp
theorem incsN_miss (m a : Tok) (prev : Option Tok) (r : List Tok) (h : a ≠ m) :
    incsN m prev (a :: r) = incsN m (some a) r := by
  rw [incsN]
  have : (a == m) = false := by simpa using h
  rw [this]; rfl

/-- without an occurrence at the head the token in front does not matter -/
theorem decsN_prev_irrel (x y : Tok) (p p' : Option Tok) (l : List Tok)
    (h : ∀ a b r, l = a :: b :: r → ¬ (a = x ∧ b = y)) : decsN x y p l = decsN x y p' l := by
  match l with
  | [] => rw [decsN_nil, decsN_nil]
  | [a] => rw [decsN_single, decsN_single]
  | a :: b :: r => rw [decsN_nomatch x y a b p r (h a b r rfl), decsN_nomatch x y a b p' r (h a b r rfl)]

/-! ### the counting lemmas -/

/-- **the single-word lemma**: the net effect of the two loops on the multiset of adjacent pairs -/
theorem count_balance (x y : Tok) (q : BPair) (hq : q ≠ (x, y)) :
    ∀ (w : List Tok) (prev : Option Tok), (x ++ y) ∉ w →
      cnt q (pairsP prev w) + cnt q (incsN (x ++ y) prev (rep x y w)) =
        cnt q (pairsP prev (rep x y w)) + cnt q (decsN x y prev w) := by
  intro w
  induction w using rep.induct x y with
  | case1 => intro prev _; rw [rep_nil, incsN_nil, decsN_nil]
  | case2 a =>
    intro prev hm
    rw [rep_single, decsN_single, incsN_miss _ a _ _ (by intro h; apply hm; simp [h]), incsN_nil]
  | case3 a b r h ih =>
    intro prev hm
    simp only [Bool.and_eq_true, beq_iff_eq] at h
    obtain ⟨rfl, rfl⟩ := h
    have hm' : (a ++ b) ∉ r := fun h => hm (List.mem_cons_of_mem _ (List.mem_cons_of_mem _ h))
    have := ih none hm'
    rw [pairsP_none, pairsP_none] at this
    rw [rep_match, incsN_hit, decsN_match, pairsP_cons, pairsP_cons, wordPairs_cons]
    simp only [cnt_append]
    have hxy : cnt q (headPair a (b :: r)) = 0 := by
      simp only [headPair]
      rw [cnt_cons]
      have : ¬ (a, b) = q := fun h => hq h.symm
      simp [this]
    omega
  | case4 a b r h ih =>
    intro prev hm
    have hne : ¬ (a = x ∧ b = y) := by simpa using h
    have hm' : (x ++ y) ∉ (b :: r) := fun h => hm (List.mem_cons_of_mem _ h)
    have ham : a ≠ x ++ y := by intro h; apply hm; simp [h]
    have := ih (some a) hm'
    rw [rep_nomatch x y a b r hne, incsN_miss _ a _ _ ham, decsN_nomatch x y a b prev r hne, pairsP_cons, pairsP_cons]
    simp only [pairsP] at this
    rw [wordPairs_cons a (rep x y (b :: r))] at this
    rw [wordPairs_cons a (b :: r)] at this
    simp only [cnt_append] at this ⊢
    omega

/-- the decrements are occurrences of the old word: nothing saturates -/
theorem decs_le (x y : Tok) (q : BPair) :
    ∀ (w : List Tok) (prev : Option Tok), cnt q (decsN x y prev w) ≤ cnt q (pairsP prev w) := by
  intro w
  induction w using rep.induct x y with
  | case1 => intro prev; rw [decsN_nil]; simp
  | case2 a => intro prev; rw [decsN_single]; simp
  | case3 a b r h ih =>
    intro prev
    simp only [Bool.and_eq_true, beq_iff_eq] at h
    obtain ⟨rfl, rfl⟩ := h
    have := ih none
    rw [pairsP_none] at this
    rw [decsN_match, pairsP_cons, wordPairs_cons]
    simp only [cnt_append]
    omega
  | case4 a b r h ih =>
    intro prev
    have hne : ¬ (a = x ∧ b = y) := by simpa using h
    have := ih (some a)
    rw [decsN_nomatch x y a b prev r hne, pairsP_cons]
    simp only [pairsP] at this
    rw [wordPairs_cons a (b :: r)] at this
    simp only [cnt_append] at this ⊢
    omega

/-- every incremented pair contains the merged token -/
theorem incsN_mem (m : Tok) : ∀ (l : List Tok) (prev : Option Tok) (q : BPair), q ∈ incsN m prev l → q.1 = m ∨ q.2 = m := by
  intro l
  induction l with
  | nil => intro prev q h; rw [incsN_nil] at h; cases h
  | cons a r ih =>
    intro prev q h
    by_cases ha : a = m
    · subst ha
      rw [incsN_hit] at h
      simp only [List.mem_append] at h
      rcases h with (h | h) | h
      · cases prev with
        | none => simp [optPair] at h
        | some p => simp [optPair] at h; right; rw [h]
      · cases r with
        | nil => simp [headPair] at h
        | cons c r' => simp [headPair] at h; left; rw [h]
      · exact ih none q h
    · rw [incsN_miss m a prev r ha] at h
      exact ih (some a) q h

theorem ne_append_left (x y : Tok) (hy : y ≠ []) : x ++ y ≠ x := by
  intro h
  have := congrArg List.length h
  simp at this
  exact hy this

theorem ne_append_right (x y : Tok) (hx : x ≠ []) : x ++ y ≠ y := by
  intro h
  have := congrArg List.length h
  simp at this
  exact hx this

/-- the merged pair is never incremented -/
theorem incs_xy_zero (x y : Tok) (hx : x ≠ []) (hy : y ≠ []) (l : List Tok) (prev : Option Tok) :
    cnt (x, y) (incsN (x ++ y) prev l) = 0 := by
  apply cnt_eq_zero_of_not_mem
  intro h
  rcases incsN_mem _ l prev _ h with h | h
  · exact ne_append_left x y hy h.symm
  · exact ne_append_right x y hx h.symm

/-- the merged pair does not occur in the new word -/
theorem rep_xy_zero (x y : Tok) (hx : x ≠ []) (hy : y ≠ []) :
    ∀ (w : List Tok) (prev : Option Tok), (prev = some x → (rep x y w).head? ≠ some y) →
      cnt (x, y) (pairsP prev (rep x y w)) = 0 := by
  intro w
  induction w using rep.induct x y with
  | case1 => intro prev _; rw [rep_nil, pairsP_nil]; rfl
  | case2 a =>
    intro prev h
    rw [rep_single] at h ⊢
    rw [pairsP_cons]
    simp only [headPair, wordPairs_nil, List.append_nil]
    cases prev with
    | none => rfl
    | some p =>
      simp only [optPair]
      rw [cnt_cons]
      have : ¬ (p, a) = (x, y) := by
        intro hh
        simp only [Prod.mk.injEq] at hh
        apply h (by rw [hh.1])
        simp [hh.2]
      simp [this]
  | case3 a b r h ih =>
    intro prev _
    simp only [Bool.and_eq_true, beq_iff_eq] at h
    obtain ⟨rfl, rfl⟩ := h
    rw [rep_match, pairsP_cons]
    have := ih (some (a ++ b)) (by intro hh; simp only [Option.some.injEq] at hh; exact absurd hh (ne_append_left a b hy))
    simp only [pairsP] at this
    rw [wordPairs_cons] at this
    simp only [cnt_append] at this ⊢
    have h1 : cnt (a, b) (optPair prev (a ++ b)) = 0 := by
      cases prev with
      | none => rfl
      | some p =>
        simp only [optPair]
        rw [cnt_cons]
        have : ¬ (p, a ++ b) = (a, b) := by
          intro hh
          simp only [Prod.mk.injEq] at hh
          exact ne_append_right a b hx hh.2
        simp [this]
    omega
  | case4 a b r h ih =>
    intro prev hp
    have hne : ¬ (a = x ∧ b = y) := by simpa using h
    rw [rep_nomatch x y a b r hne] at hp ⊢
    rw [pairsP_cons]
    have hih := ih (some a) (by
      intro hh
      simp only [Option.some.injEq] at hh
      obtain ⟨t, ht | ht⟩ := rep_head x y b r
      · rw [ht]; simp; intro hb; exact hne ⟨hh, hb⟩
      · rw [ht.2]; simp only [List.head?_cons, ne_eq, Option.some.injEq]; exact ne_append_right x y hx)
    simp only [pairsP] at hih
    rw [wordPairs_cons] at hih
    simp only [cnt_append] at hih ⊢
    have h1 : cnt (x, y) (optPair prev a) = 0 := by
      cases prev with
      | none => rfl
      | some p =>
        simp only [optPair]
        rw [cnt_cons]
        have : ¬ (p, a) = (x, y) := by
          intro hh
          simp only [Prod.mk.injEq] at hh
          apply hp (by rw [hh.1])
          simp [hh.2]
        simp [this]
    omega

theorem rep_xy_zero' (x y : Tok) (hx : x ≠ []) (hy : y ≠ []) (w : List Tok) :
    cnt (x, y) (wordPairs (rep x y w)) = 0 := by
  have := rep_xy_zero x y hx hy w none (by intro h; cases h)
  rw [pairsP_none] at this
  exact this

end Tu.BpeTrainIncL
