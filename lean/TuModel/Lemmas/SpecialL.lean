import TuModel.Model.ByteTok
import TuModel.Model.CharTok
namespace Tu

theorem isPrefixOf_eq_append {s t : List Nat} (h : t.isPrefixOf s = true) : s = t ++ s.drop t.length := by
  induction t generalizing s with
  | nil => simp
  | cons a t ih =>
    cases s with
    | nil => simp [List.isPrefixOf] at h
    | cons b s =>
      simp only [List.isPrefixOf, Bool.and_eq_true, beq_iff_eq] at h
      obtain ⟨rfl, h⟩ := h
      simp only [List.length_cons, List.drop_succ_cons, List.cons_append]
      rw [← ih h]

/-- what a successful alternation step returns -/
theorem matchAt_some {toks : List (List Nat)} {i : Nat} {s : List Nat} {j : Nat} {t : List Nat}
    (h : matchAt toks i s = some (j, t)) :
    t ≠ [] ∧ t.isPrefixOf s = true ∧ i ≤ j ∧ toks[j - i]? = some t := by
  induction toks generalizing i with
  | nil => simp [matchAt] at h
  | cons u us ih =>
    unfold matchAt at h
    split at h
    · rename_i hc
      simp at h
      obtain ⟨rfl, rfl⟩ := h
      simp only [Bool.and_eq_true, Bool.not_eq_true', List.isEmpty_eq_false_iff] at hc
      exact ⟨hc.1, hc.2, Nat.le_refl _, by simp⟩
    · obtain ⟨h1, h2, h3, h4⟩ := ih h
      refine ⟨h1, h2, by omega, ?_⟩
      have : j - i = (j - (i + 1)) + 1 := by omega
      rw [this, List.getElem?_cons_succ]; exact h4

theorem flushReg_bytes (cur : List Nat) : (flushReg cur).flatMap Piece.bytes = cur.reverse := by
  unfold flushReg; split
  · rename_i h; simp at h; simp [h]
  · simp [Piece.bytes]

/-- **the pieces of `split_input` concatenate to the input**, whatever the alternation order -/
theorem splitAux_concat (toks : List (List Nat)) : ∀ (fuel : Nat) (s cur : List Nat), s.length < fuel →
    (splitAux toks fuel s cur).flatMap Piece.bytes = cur.reverse ++ s := by
  intro fuel
  induction fuel with
  | zero => intro s cur h; omega
  | succ fuel ih =>
    intro s cur h
    cases s with
    | nil => simp [splitAux, flushReg_bytes]
    | cons b rest =>
      simp only [splitAux]
      split
      · rename_i i t hm
        obtain ⟨hne, hp, _, _⟩ := matchAt_some hm
        have hlen : 0 < t.length := by cases t <;> simp_all
        have := ih ((b :: rest).drop t.length) [] (by simp at h ⊢; omega)
        simp only [List.flatMap_append, List.flatMap_cons, flushReg_bytes, Piece.bytes, this, List.reverse_nil, List.nil_append]
        rw [← isPrefixOf_eq_append hp]
      · have := ih rest (b :: cur) (by simp at h; omega)
        rw [this]; simp

theorem splitInput_concat (sp : Special) (s : List Nat) (ign : Bool) :
    (splitInput sp s ign).flatMap Piece.bytes = s := by
  unfold splitInput
  split
  · simp [Piece.bytes]
  · rw [splitAux_concat _ _ _ _ (by omega)]; simp

/-- every special piece carries the token with that index -/
theorem splitAux_special (toks : List (List Nat)) : ∀ (fuel : Nat) (s cur : List Nat) (i : Nat) (b : List Nat),
    Piece.special i b ∈ splitAux toks fuel s cur → toks[i]? = some b := by
  intro fuel
  induction fuel with
  | zero => intro s cur i b h; simp [splitAux, flushReg] at h
  | succ fuel ih =>
    intro s cur i b h
    cases s with
    | nil => simp [splitAux, flushReg] at h
    | cons c rest =>
      simp only [splitAux] at h
      split at h
      · rename_i j t hm
        obtain ⟨_, _, _, h4⟩ := matchAt_some hm
        simp only [List.mem_append, List.mem_cons] at h
        rcases h with h | h | h
        · simp [flushReg] at h
        · injection h with h1 h2; subst h1; subst h2; simpa using h4
        · exact ih _ _ _ _ h
      · exact ih _ _ _ _ h

theorem splitInput_special (sp : Special) (s : List Nat) (ign : Bool) (i : Nat) (b : List Nat)
    (h : Piece.special i b ∈ splitInput sp s ign) : sp.tokens[i]? = some b := by
  unfold splitInput at h
  split at h
  · simp at h
  · exact splitAux_special _ _ _ _ _ _ h

/-- regular pieces consist of bytes of the input -/
theorem splitInput_regular_mem (sp : Special) (s : List Nat) (ign : Bool) (r : List Nat)
    (h : Piece.regular r ∈ splitInput sp s ign) : ∀ x ∈ r, x ∈ s := by
  intro x hx
  have : x ∈ (splitInput sp s ign).flatMap Piece.bytes := by
    simp only [List.mem_flatMap]; exact ⟨_, h, by simpa [Piece.bytes] using hx⟩
  rwa [splitInput_concat] at this

/-! ### `de_tokenize` of the byte tokenizer inverts `tokenize` -/

theorem byteDetokBytes_append (sp : Special) (ign : Bool) (a b : List Nat) :
    byteDetokBytes sp ign (a ++ b) =
      (byteDetokBytes sp ign a).bind (fun x => (byteDetokBytes sp ign b).map (x ++ ·)) := by
  induction a with
  | nil => simp [byteDetokBytes]
  | cons id ids ih =>
    simp only [List.cons_append, byteDetokBytes]
    split
    · rw [ih]; cases byteDetokBytes sp ign ids <;> simp
      cases byteDetokBytes sp ign b <;> simp
    · split
      · exact ih
      · split
        · rw [ih]; cases byteDetokBytes sp ign ids <;> simp
          cases byteDetokBytes sp ign b <;> simp
        · simp

theorem byteDetokBytes_regular (sp : Special) (ign : Bool) (r : List Nat) (h : ∀ x ∈ r, x < 256) :
    byteDetokBytes sp ign r = some r := by
  induction r with
  | nil => rfl
  | cons x r ih =>
    have hx := h x List.mem_cons_self
    simp [byteDetokBytes, hx, ih (fun y hy => h y (List.mem_cons_of_mem _ hy))]

theorem idToToken_offset (sp : Special) (i : Nat) : sp.idToToken (sp.offset + i) = sp.tokens[i]? := by
  have : ¬ sp.offset + i < sp.offset := by omega
  simp [Special.idToToken, this]

theorem byteDetokBytes_pieces (sp : Special) (ho : 256 ≤ sp.offset) (ps : List Piece)
    (hreg : ∀ r, Piece.regular r ∈ ps → ∀ x ∈ r, x < 256)
    (hspec : ∀ i b, Piece.special i b ∈ ps → sp.tokens[i]? = some b) :
    byteDetokBytes sp false (ps.flatMap (pieceIds sp)) = some (ps.flatMap Piece.bytes) := by
  induction ps with
  | nil => rfl
  | cons p ps ih =>
    have ih := ih (fun r hr => hreg r (List.mem_cons_of_mem _ hr)) (fun i b hb => hspec i b (List.mem_cons_of_mem _ hb))
    simp only [List.flatMap_cons, byteDetokBytes_append, ih]
    cases p with
    | regular r =>
      simp [pieceIds, Piece.bytes, byteDetokBytes_regular sp false r (hreg r List.mem_cons_self)]
    | special i b =>
      have := hspec i b List.mem_cons_self
      have hlt : ¬ sp.offset + i < 256 := by omega
      simp [pieceIds, Piece.bytes, byteDetokBytes, hlt, idToToken_offset, this]

/-- bytes of a list of special ids -/
def specialBytes (sp : Special) (ids : List Nat) : List Nat := ids.flatMap (fun id => (sp.idToToken id).getD [])

theorem byteDetokBytes_specials (sp : Special) (ho : 256 ≤ sp.offset) (ids : List Nat)
    (h : ∀ id ∈ ids, sp.offset ≤ id ∧ (sp.idToToken id).isSome = true) :
    byteDetokBytes sp false ids = some (specialBytes sp ids) := by
  induction ids with
  | nil => rfl
  | cons id ids ih =>
    obtain ⟨h1, h2⟩ := h id List.mem_cons_self
    have ih := ih (fun x hx => h x (List.mem_cons_of_mem _ hx))
    have hlt : ¬ id < 256 := by omega
    cases ht : sp.idToToken id with
    | none => simp [ht] at h2
    | some t => simp [byteDetokBytes, hlt, ht, ih, specialBytes]

theorem idxOf_some {toks : List (List Nat)} {t : List Nat} {i : Nat} (h : idxOf toks t = some i) : toks[i]? = some t := by
  unfold idxOf at h
  simp only at h
  split at h
  · rename_i hlt
    injection h with h; subst h
    rw [List.getElem?_eq_getElem hlt]
    simp [List.getElem_idxOf]
  · simp at h

theorem mapM_look {toks : List (List Nat)} {offset : Nat} :
    ∀ {l : List (List Nat)} {ids : List Nat},
    l.mapM (fun t => (idxOf toks t).map (offset + ·)) = some ids →
    ∀ id ∈ ids, ∃ i, id = offset + i ∧ (toks[i]?).isSome = true := by
  intro l
  induction l with
  | nil => intro ids h; simp at h; subst h; simp
  | cons t l ih =>
    intro ids h
    simp only [List.mapM_cons, Option.bind_eq_bind] at h
    cases hi : idxOf toks t with
    | none => simp [hi] at h
    | some i =>
      simp only [hi, Option.map_some, Option.bind_some] at h
      cases hm : l.mapM (fun t => (idxOf toks t).map (offset + ·)) with
      | none => simp [hm] at h
      | some rest =>
        simp [hm] at h; subst h
        intro id hid
        rcases List.mem_cons.mp hid with rfl | hid
        · exact ⟨i, rfl, by simp [idxOf_some hi]⟩
        · exact ih hm id hid

/-- ids produced by `new_base_tokenizer` for prefix / suffix tokens are ids of special tokens -/
theorem mkSpecial_ids {offset : Nat} {tokens : List (List Nat)} {pad : List Nat} {pre suf : List (List Nat)}
    {sp : Special} (h : mkSpecial offset tokens pad pre suf = some sp) :
    sp.offset = offset ∧ sp.tokens = uniq tokens ∧
    (∀ id ∈ sp.prefixIds, sp.offset ≤ id ∧ (sp.idToToken id).isSome = true) ∧
    (∀ id ∈ sp.suffixIds, sp.offset ≤ id ∧ (sp.idToToken id).isSome = true) ∧
    (sp.offset ≤ sp.padId ∧ (sp.idToToken sp.padId).isSome = true) := by
  unfold mkSpecial at h
  simp only at h
  split at h
  · rename_i p s pd hp hs hpd
    injection h with h; subst h
    refine ⟨rfl, rfl, ?_, ?_, ?_⟩
    · intro id hid
      obtain ⟨i, rfl, hi⟩ := mapM_look hp id hid
      exact ⟨by simp, by rw [idToToken_offset]; exact hi⟩
    · intro id hid
      obtain ⟨i, rfl, hi⟩ := mapM_look hs id hid
      exact ⟨by simp, by rw [idToToken_offset]; exact hi⟩
    · cases hi : idxOf (uniq tokens) pad with
      | none => simp [hi] at hpd
      | some i =>
        simp [hi] at hpd; subst hpd
        exact ⟨by simp, by rw [idToToken_offset]; simp [idxOf_some hi]⟩
  · simp at h

end Tu
