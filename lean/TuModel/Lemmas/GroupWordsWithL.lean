/-
  Lemmas for `groupWordsWith_total` (C13): the closing assertion of `_group_words` holds for EVERY script that
  `scriptAccept` accepts, not only for the one the model's backtrace produces.

  `scriptAccept` also accepts scripts that are not forward traces of the matrix (an operation may be recorded at
  the input position the preceding operation has just consumed: `applyScript` then copies nothing and a
  `replace` acts as an insertion, an `insert` moves the read position back by one, a `delete` does nothing).
  The analysis below therefore follows the semantics of `applyScript` itself, with two read states
  (`CInv`: the read position is at most the next operation's position, `DInv`: position `lo` has just been
  consumed and the next operation may still be recorded at `lo`).  Each state yields an alignment (`Align`) of the
  remaining input with the remaining output whose cost is at most the number of remaining operations, and — when
  the cost is EXACTLY that number — the whitespace bookkeeping (`WSok`).  The degenerate steps (a second delete of
  a position, a delete that a following insert undoes) make the alignment strictly cheaper than the script, so
  they cannot occur in a script whose length is the distance.
-/
import TuModel.Lemmas.GroupWordsL
import TuModel.Props.C12
namespace Tu

/-! ## alignments: append, reversal, common prefix -/

theorem align_cast {fl : EFlags} {as bs : List (List Nat)} {n m : Nat} (h : Align fl as bs n) (e : n = m) :
    Align fl as bs m := e ▸ h

theorem align_append {fl : EFlags} {as bs : List (List Nat)} {n : Nat} (h : Align fl as bs n) :
    ∀ {as' bs' : List (List Nat)} {m : Nat}, Align fl as' bs' m → Align fl (as ++ as') (bs ++ bs') (n + m) := by
  induction h with
  | nil => intro as' bs' m h'; exact align_cast h' (by omega)
  | del x _ ih => intro as' bs' m h'; exact align_cast (.del x (ih h')) (by omega)
  | ins y _ ih => intro as' bs' m h'; exact align_cast (.ins y (ih h')) (by omega)
  | keep x _ ih => intro as' bs' m h'; exact .keep x (ih h')
  | rep hne hr _ ih => intro as' bs' m h'; exact align_cast (.rep hne hr (ih h')) (by omega)
  | swp hs hr _ ih => intro as' bs' m h'; exact align_cast (.swp hs hr (ih h')) (by omega)

/-- without swaps an alignment can be read backwards -/
theorem align_reverse {fl : EFlags} (hsw : fl.swap = false) {as bs : List (List Nat)} {n : Nat}
    (h : Align fl as bs n) : Align fl as.reverse bs.reverse n := by
  induction h with
  | nil => exact .nil
  | del x _ ih =>
    rw [List.reverse_cons]
    have := align_append ih (.del x .nil : Align fl [x] [] (0 + 1))
    simpa using this
  | ins y _ ih =>
    rw [List.reverse_cons]
    have := align_append ih (.ins y .nil : Align fl [] [y] (0 + 1))
    simpa using this
  | keep x _ ih =>
    rw [List.reverse_cons, List.reverse_cons]
    have := align_append ih (.keep x .nil : Align fl [x] [x] 0)
    simpa using this
  | rep hne hr _ ih =>
    rw [List.reverse_cons, List.reverse_cons]
    have := align_append ih (.rep hne hr .nil : Align fl [_] [_] (0 + 1))
    simpa using this
  | swp hs _ _ _ => rw [hsw] at hs; exact absurd hs (by simp)

theorem align_keep_prefix {fl : EFlags} (c : List (List Nat)) {as bs : List (List Nat)} {n : Nat}
    (h : Align fl as bs n) : Align fl (c ++ as) (c ++ bs) n := by
  induction c with
  | nil => exact h
  | cons x c ih => exact .keep x ih

/-! ## list facts -/

theorem drop_split (a : List (List Nat)) (lo i : Nat) (h : lo ≤ i) :
    a.drop lo = (a.drop lo).take (i - lo) ++ a.drop i := by
  have := (List.take_append_drop (i - lo) (a.drop lo)).symm
  rw [List.drop_drop] at this
  rwa [show lo + (i - lo) = i by omega] at this

theorem drop_cons_getD (a : List (List Nat)) (i : Nat) (h : i < a.length) :
    a.drop i = a.getD i [] :: a.drop (i + 1) := by
  rw [List.drop_eq_getElem_cons h]
  simp [List.getD_eq_getElem?_getD, List.getElem?_eq_getElem h]

theorem delWs_cons (a : List (List Nat)) (k : EKind) (i j : Nat) (rest : List (EKind × Nat × Nat)) :
    delWs a ((k, i, j) :: rest) =
      (if k == .delete && isWsCl (a.getD i []) then [i] else []) ++ delWs a rest := by
  show delWs a ([(k, i, j)] ++ rest) = _
  rw [delWs_append, delWs_single]

theorem insWs_cons (b : List (List Nat)) (k : EKind) (i j : Nat) (rest : List (EKind × Nat × Nat)) :
    insWs b ((k, i, j) :: rest) =
      (if k == .insert && isWsCl (b.getD j []) then [i] else []) ++ insWs b rest := by
  show insWs b ([(k, i, j)] ++ rest) = _
  rw [insWs_append, insWs_single]

theorem mem_delWs {a : List (List Nat)} {l : List (EKind × Nat × Nat)} {p : Nat} (h : p ∈ delWs a l) :
    ∃ j, (EKind.delete, p, j) ∈ l ∧ isWsCl (a.getD p []) = true := by
  induction l with
  | nil => simp [delWs] at h
  | cons q l ih =>
    obtain ⟨k, i, j⟩ := q
    rw [delWs_cons] at h
    rcases List.mem_append.mp h with h | h
    · by_cases hc : (k == .delete && isWsCl (a.getD i [])) = true
      · rw [if_pos hc] at h
        simp only [List.mem_singleton] at h
        subst h
        simp only [Bool.and_eq_true, beq_iff_eq] at hc
        obtain ⟨rfl, hw⟩ := hc
        exact ⟨j, List.mem_cons_self .., hw⟩
      · rw [if_neg hc] at h; simp at h
    · obtain ⟨j', hm, hw⟩ := ih h
      exact ⟨j', List.mem_cons_of_mem _ hm, hw⟩

theorem mem_insWs {b : List (List Nat)} {l : List (EKind × Nat × Nat)} {p : Nat} (h : p ∈ insWs b l) :
    ∃ j, (EKind.insert, p, j) ∈ l := by
  induction l with
  | nil => simp [insWs] at h
  | cons q l ih =>
    obtain ⟨k, i, j⟩ := q
    rw [insWs_cons] at h
    rcases List.mem_append.mp h with h | h
    · by_cases hc : (k == .insert && isWsCl (b.getD j [])) = true
      · rw [if_pos hc] at h
        simp only [List.mem_singleton] at h
        subst h
        simp only [Bool.and_eq_true, beq_iff_eq] at hc
        obtain ⟨rfl, _⟩ := hc
        exact ⟨j, List.mem_cons_self ..⟩
      · rw [if_neg hc] at h; simp at h
    · obtain ⟨j', hm⟩ := ih h
      exact ⟨j', List.mem_cons_of_mem _ hm⟩

/-- lowering the read position in front of an operation only copies more characters -/
theorem applyScript_lower (a b : List (List Nat)) (k : EKind) (i j : Nat) (rest : List (EKind × Nat × Nat))
    (lo : Nat) :
    applyScript a b ((k, i, j) :: rest) lo =
      (a.drop lo).take (i - lo) ++ applyScript a b ((k, i, j) :: rest) i := by
  cases k with
  | insert => rw [applyScript_insert, applyScript_insert, Nat.sub_self, List.take_zero, List.nil_append]
  | delete => rw [applyScript_delete, applyScript_delete, Nat.sub_self, List.take_zero, List.nil_append]
  | replace => rw [applyScript_replace, applyScript_replace, Nat.sub_self, List.take_zero, List.nil_append]
  | swap => rw [applyScript_swap, applyScript_swap, Nat.sub_self, List.take_zero, List.nil_append]

/-! ## the two read states -/

/-- the flags `_group_words` calls `edit::operations` with -/
abbrev flS : EFlags := { swap := false, sid := true }

theorem canReplace_flS {x y : List Nat} (h : canReplace flS x y = true) : isWsCl x = false ∧ isWsCl y = false := by
  simpa [canReplace] using h

/-- whitespace bookkeeping of a script segment that turns `src` into `out` -/
structure WSok (a b : List (List Nat)) (src : List (List Nat)) (ops : List (EKind × Nat × Nat))
    (out : List (List Nat)) : Prop where
  cnt : out.countP isWsCl + (delWs a ops).length = src.countP isWsCl + (insWs b ops).length
  sorted : (delWs a ops).Pairwise (· < ·)

/-- read position `lo`, every remaining operation at a position `≥ lo` -/
def CInv (a b : List (List Nat)) (lo : Nat) (ops : List (EKind × Nat × Nat)) : Prop :=
  ∃ n, Align flS (a.drop lo) (applyScript a b ops lo) n ∧ n ≤ ops.length ∧
    (n = ops.length → WSok a b (a.drop lo) ops (applyScript a b ops lo))

/-- position `lo` has just been consumed (read position `lo + 1`), the remaining operations are at positions
`≥ lo`: either the rest is an honest continuation from `lo + 1`, or it goes back and re-reads `a[lo]` -/
def DInv (a b : List (List Nat)) (lo : Nat) (ops : List (EKind × Nat × Nat)) : Prop :=
  ∃ n, n ≤ ops.length ∧
    ((Align flS (a.drop (lo + 1)) (applyScript a b ops (lo + 1)) n ∧
        (n = ops.length → WSok a b (a.drop (lo + 1)) ops (applyScript a b ops (lo + 1)) ∧
          ∀ p ∈ delWs a ops, lo < p)) ∨
     (Align flS (a.drop lo) (applyScript a b ops (lo + 1)) n ∧
        (n = ops.length → WSok a b (a.drop lo) ops (applyScript a b ops (lo + 1)))))

theorem align_refl' (fl : EFlags) (as : List (List Nat)) : Align fl as as 0 := by
  induction as with
  | nil => exact .nil
  | cons x as ih => exact .keep x ih

theorem CInv_nil (a b : List (List Nat)) (lo : Nat) : CInv a b lo [] :=
  ⟨0, by rw [applyScript_nil]; exact align_refl' _ _, Nat.le_refl _, fun _ =>
    ⟨by rw [applyScript_nil]; simp [delWs, insWs], by simp [delWs]⟩⟩

theorem CInv_lower {a b : List (List Nat)} {k : EKind} {i j : Nat} {rest : List (EKind × Nat × Nat)} {lo : Nat}
    (h : lo ≤ i) (hc : CInv a b i ((k, i, j) :: rest)) : CInv a b lo ((k, i, j) :: rest) := by
  obtain ⟨n, hal, hn, hws⟩ := hc
  refine ⟨n, ?_, hn, ?_⟩
  · rw [applyScript_lower a b k i j rest lo]
    have := align_keep_prefix ((a.drop lo).take (i - lo)) hal
    rwa [← drop_split a lo i h] at this
  · intro e
    obtain ⟨h1, h2⟩ := hws e
    refine ⟨?_, h2⟩
    rw [applyScript_lower a b k i j rest lo, List.countP_append]
    have e := congrArg (List.countP isWsCl) (drop_split a lo i h)
    rw [List.countP_append] at e
    omega

theorem CInv_ins {a b : List (List Nat)} {i j : Nat} {rest : List (EKind × Nat × Nat)}
    (hc : CInv a b i rest) : CInv a b i ((.insert, i, j) :: rest) := by
  obtain ⟨n, hal, hn, hws⟩ := hc
  have eo : applyScript a b ((.insert, i, j) :: rest) i = b.getD j [] :: applyScript a b rest i := by
    rw [applyScript_insert, Nat.sub_self, List.take_zero, List.nil_append]
  have ed : delWs a ((.insert, i, j) :: rest) = delWs a rest := by rw [delWs_cons]; simp
  refine ⟨n + 1, by rw [eo]; exact .ins _ hal, by simp only [List.length_cons]; omega, ?_⟩
  intro e
  obtain ⟨h1, h2⟩ := hws (by simp only [List.length_cons] at e; omega)
  rw [eo]
  refine ⟨?_, by rw [ed]; exact h2⟩
  rw [ed, insWs_cons, List.countP_cons]
  cases isWsCl (b.getD j []) <;> simp <;> omega

theorem CInv_del {a b : List (List Nat)} {i j : Nat} {rest : List (EKind × Nat × Nat)} (hi : i < a.length)
    (hd : DInv a b i rest) : CInv a b i ((.delete, i, j) :: rest) := by
  have eo : applyScript a b ((.delete, i, j) :: rest) i = applyScript a b rest (i + 1) := by
    rw [applyScript_delete, Nat.sub_self, List.take_zero, List.nil_append]
  have ei : insWs b ((.delete, i, j) :: rest) = insWs b rest := by rw [insWs_cons]; simp
  obtain ⟨n, hn, ⟨hal, hws⟩ | ⟨hal, _⟩⟩ := hd
  · refine ⟨n + 1, by rw [eo, drop_cons_getD a i hi]; exact .del _ hal, by simp only [List.length_cons]; omega, ?_⟩
    intro e
    obtain ⟨⟨h1, h2⟩, h3⟩ := hws (by simp only [List.length_cons] at e; omega)
    rw [eo]
    cases hw : isWsCl (a.getD i []) with
    | true =>
      have ed : delWs a ((.delete, i, j) :: rest) = i :: delWs a rest := by rw [delWs_cons, hw]; simp
      refine ⟨?_, by rw [ed, List.pairwise_cons]; exact ⟨h3, h2⟩⟩
      rw [ed, ei, drop_cons_getD a i hi, List.countP_cons, hw]
      simp only [List.length_cons, if_true]; omega
    | false =>
      have ed : delWs a ((.delete, i, j) :: rest) = delWs a rest := by rw [delWs_cons, hw]; simp
      refine ⟨?_, by rw [ed]; exact h2⟩
      rw [ed, ei, drop_cons_getD a i hi, List.countP_cons, hw]
      simp only [Bool.false_eq_true, if_false]; omega
  · exact ⟨n, by rw [eo]; exact hal, by simp only [List.length_cons]; omega,
      fun e => by simp only [List.length_cons] at e; omega⟩

theorem CInv_rep {a b : List (List Nat)} {i j : Nat} {rest : List (EKind × Nat × Nat)} (hi : i < a.length)
    (hr : canReplace flS (a.getD i []) (b.getD j []) = true)
    (hd : DInv a b i rest) : CInv a b i ((.replace, i, j) :: rest) := by
  have eo : applyScript a b ((.replace, i, j) :: rest) i = b.getD j [] :: applyScript a b rest (i + 1) := by
    rw [applyScript_replace, Nat.sub_self, List.take_zero, List.nil_append]
  have ei : insWs b ((.replace, i, j) :: rest) = insWs b rest := by rw [insWs_cons]; simp
  have ed : delWs a ((.replace, i, j) :: rest) = delWs a rest := by rw [delWs_cons]; simp
  obtain ⟨hwa, hwb⟩ := canReplace_flS hr
  obtain ⟨n, hn, ⟨hal, hws⟩ | ⟨hal, hws⟩⟩ := hd
  · by_cases hxy : a.getD i [] = b.getD j []
    · refine ⟨n, ?_, by simp only [List.length_cons]; omega, fun e => by simp only [List.length_cons] at e; omega⟩
      rw [eo, drop_cons_getD a i hi, hxy]; exact .keep _ hal
    · refine ⟨n + 1, by rw [eo, drop_cons_getD a i hi]; exact .rep hxy hr hal,
        by simp only [List.length_cons]; omega, ?_⟩
      intro e
      obtain ⟨⟨h1, h2⟩, _⟩ := hws (by simp only [List.length_cons] at e; omega)
      rw [eo]
      refine ⟨?_, by rw [ed]; exact h2⟩
      rw [ed, ei, drop_cons_getD a i hi, List.countP_cons, List.countP_cons, hwa, hwb]
      simp only [Bool.false_eq_true, if_false]; omega
  · refine ⟨n + 1, by rw [eo]; exact .ins _ hal, by simp only [List.length_cons]; omega, ?_⟩
    intro e
    obtain ⟨h1, h2⟩ := hws (by simp only [List.length_cons] at e; omega)
    rw [eo]
    refine ⟨?_, by rw [ed]; exact h2⟩
    rw [ed, ei, List.countP_cons, hwb]
    simp only [Bool.false_eq_true, if_false]; omega

/-- no remaining operation is recorded at the consumed position: an honest continuation -/
theorem DInv_far {a b : List (List Nat)} {lo : Nat} {ops : List (EKind × Nat × Nat)}
    (hc : CInv a b (lo + 1) ops) (hlo : ∀ p ∈ ops, lo + 1 ≤ p.2.1) : DInv a b lo ops := by
  obtain ⟨n, hal, hn, hws⟩ := hc
  refine ⟨n, hn, Or.inl ⟨hal, fun e => ⟨hws e, ?_⟩⟩⟩
  intro p hp
  obtain ⟨j, hm, _⟩ := mem_delWs hp
  exact hlo _ hm

theorem DInv_del {a b : List (List Nat)} {lo j : Nat} {rest : List (EKind × Nat × Nat)}
    (hd : DInv a b lo rest) : DInv a b lo ((.delete, lo, j) :: rest) := by
  have eo : applyScript a b ((.delete, lo, j) :: rest) (lo + 1) = applyScript a b rest (lo + 1) := by
    rw [applyScript_delete, show lo - (lo + 1) = 0 by omega, List.take_zero, List.nil_append]
  obtain ⟨n, hn, ⟨hal, _⟩ | ⟨hal, _⟩⟩ := hd
  · exact ⟨n, by simp only [List.length_cons]; omega,
      Or.inl ⟨by rw [eo]; exact hal, fun e => by simp only [List.length_cons] at e; omega⟩⟩
  · exact ⟨n, by simp only [List.length_cons]; omega,
      Or.inr ⟨by rw [eo]; exact hal, fun e => by simp only [List.length_cons] at e; omega⟩⟩

theorem DInv_rep {a b : List (List Nat)} {lo j : Nat} {rest : List (EKind × Nat × Nat)}
    (hwb : isWsCl (b.getD j []) = false)
    (hd : DInv a b lo rest) : DInv a b lo ((.replace, lo, j) :: rest) := by
  have eo : applyScript a b ((.replace, lo, j) :: rest) (lo + 1) = b.getD j [] :: applyScript a b rest (lo + 1) := by
    rw [applyScript_replace, show lo - (lo + 1) = 0 by omega, List.take_zero, List.nil_append]
  have ei : insWs b ((.replace, lo, j) :: rest) = insWs b rest := by rw [insWs_cons]; simp
  have ed : delWs a ((.replace, lo, j) :: rest) = delWs a rest := by rw [delWs_cons]; simp
  obtain ⟨n, hn, ⟨hal, hws⟩ | ⟨hal, hws⟩⟩ := hd
  · refine ⟨n + 1, by simp only [List.length_cons]; omega, Or.inl ⟨by rw [eo]; exact .ins _ hal, ?_⟩⟩
    intro e
    obtain ⟨⟨h1, h2⟩, h3⟩ := hws (by simp only [List.length_cons] at e; omega)
    rw [eo]
    refine ⟨⟨?_, by rw [ed]; exact h2⟩, by rw [ed]; exact h3⟩
    rw [ed, ei, List.countP_cons, hwb]
    simp only [Bool.false_eq_true, if_false]; omega
  · refine ⟨n + 1, by simp only [List.length_cons]; omega, Or.inr ⟨by rw [eo]; exact .ins _ hal, ?_⟩⟩
    intro e
    obtain ⟨h1, h2⟩ := hws (by simp only [List.length_cons] at e; omega)
    rw [eo]
    refine ⟨?_, by rw [ed]; exact h2⟩
    rw [ed, ei, List.countP_cons, hwb]
    simp only [Bool.false_eq_true, if_false]; omega

/-- an insertion recorded at the consumed position moves the read position back: `a[lo]` is read again -/
theorem DInv_ins {a b : List (List Nat)} {lo j : Nat} {rest : List (EKind × Nat × Nat)}
    (hc : CInv a b lo rest) : DInv a b lo ((.insert, lo, j) :: rest) := by
  have eo : applyScript a b ((.insert, lo, j) :: rest) (lo + 1) = b.getD j [] :: applyScript a b rest lo := by
    rw [applyScript_insert, show lo - (lo + 1) = 0 by omega, List.take_zero, List.nil_append]
  have ed : delWs a ((.insert, lo, j) :: rest) = delWs a rest := by rw [delWs_cons]; simp
  obtain ⟨n, hal, hn, hws⟩ := hc
  refine ⟨n + 1, by simp only [List.length_cons]; omega, Or.inr ⟨by rw [eo]; exact .ins _ hal, ?_⟩⟩
  intro e
  obtain ⟨h1, h2⟩ := hws (by simp only [List.length_cons] at e; omega)
  rw [eo]
  refine ⟨?_, by rw [ed]; exact h2⟩
  rw [ed, insWs_cons, List.countP_cons]
  cases isWsCl (b.getD j []) <;> simp <;> omega

/-- both read states, for every script whose operations are admissible and sorted by input position -/
theorem inv_all (a b : List (List Nat)) : ∀ (ops : List (EKind × Nat × Nat)),
    (∀ p ∈ ops, opOk flS a b p = true) → ops.Pairwise (fun p q => p.2.1 ≤ q.2.1) →
    ∀ lo, (∀ p ∈ ops, lo ≤ p.2.1) → CInv a b lo ops ∧ (lo < a.length → DInv a b lo ops) := by
  intro ops
  induction ops with
  | nil =>
    intro _ _ lo _
    exact ⟨CInv_nil a b lo, fun _ => DInv_far (CInv_nil a b (lo + 1)) (by simp)⟩
  | cons q rest ih =>
    intro hok hs lo hlo
    obtain ⟨k, i, j⟩ := q
    rw [List.pairwise_cons] at hs
    have hok' : ∀ p ∈ rest, opOk flS a b p = true := fun p hp => hok p (List.mem_cons_of_mem _ hp)
    have hq := (opOk_iff flS a b (k, i, j)).mp (hok _ (List.mem_cons_self ..))
    have ihi := ih hok' hs.2 i (fun p hp => hs.1 p hp)
    have hC : ∀ lo', lo' ≤ i → CInv a b lo' ((k, i, j) :: rest) := by
      intro lo' hle
      apply CInv_lower hle
      cases k with
      | insert => exact CInv_ins ihi.1
      | delete =>
        have hi : i < a.length := hq.2.1 rfl
        exact CInv_del hi (ihi.2 hi)
      | replace =>
        obtain ⟨hi, _, hr⟩ := hq.2.2.1 rfl
        exact CInv_rep hi hr (ihi.2 hi)
      | swap => exact absurd (hq.2.2.2 rfl).1 (by simp)
    have hli : lo ≤ i := hlo _ (List.mem_cons_self ..)
    refine ⟨hC lo hli, fun hlt => ?_⟩
    by_cases hlt' : lo < i
    · apply DInv_far (hC (lo + 1) hlt')
      intro p hp
      rcases List.mem_cons.mp hp with rfl | hp
      · exact hlt'
      · have := hs.1 p hp; simp only [] at this; omega
    · have : i = lo := by omega
      subst this
      cases k with
      | insert => exact DInv_ins ihi.1
      | delete => exact DInv_del (ihi.2 hlt)
      | replace =>
        obtain ⟨_, _, hr⟩ := hq.2.2.1 rfl
        exact DInv_rep (canReplace_flS hr).2 (ihi.2 hlt)
      | swap => exact absurd (hq.2.2.2 rfl).1 (by simp)

/-! ## every accepted script has the whitespace bookkeeping of a backtrace -/

theorem accept_wsOK (a b : List (List Nat)) (ops : List (EKind × Nat × Nat))
    (h : scriptAccept flS a b ops = true) : WsOK a b a.length b.length ops := by
  obtain ⟨hlen, hsorted, hok, hsem⟩ := (scriptAccept_iff flS a b ops).mp h
  have hpw : ops.Pairwise (fun p q => p.2.1 ≤ q.2.1) :=
    (scriptSorted_pairwise ops hsorted).imp (fun h => h.1)
  obtain ⟨n, hal, hn, hws⟩ := (inv_all a b ops hok hpw 0 (fun _ _ => Nat.zero_le _)).1
  rw [hsem, List.drop_zero] at hal hws
  have hge := C12.distance_le_script flS a b n (align_reverse rfl hal)
  obtain ⟨hcnt, hsrt⟩ := hws (by omega)
  refine ⟨Nat.le_refl _, Nat.le_refl _, by simpa using hcnt, ?_, hsrt, ?_⟩
  · intro p hp
    obtain ⟨j, hm, hw⟩ := mem_delWs hp
    exact ⟨((opOk_iff flS a b _).mp (hok _ hm)).2.1 rfl, hw⟩
  · intro p hp
    obtain ⟨j, hm⟩ := mem_insWs hp
    exact (((opOk_iff flS a b _).mp (hok _ hm)).1 rfl).2

/-! ## `_group_words` for a given script passes its closing assertion -/

theorem groupWordsWith_of_wsOK (input pred : List (List Nat)) (hi : CleanB input = true) (hp : CleanB pred = true)
    (ops : List (EKind × Nat × Nat)) (hws : WsOK input pred input.length pred.length ops)
    (matching : List Nat) : (groupWordsWith ops input pred matching).isSome = true := by
  unfold groupWordsWith
  simp only []
  split
  · rfl
  · rename_i h1
    split
    · rfl
    · rename_i h2
      have hine : input ≠ [] := by rintro rfl; simp [wordBoundaries_nil] at h2
      have hpne : pred ≠ [] := by rintro rfl; simp [wordBoundaries_nil] at h1
      rw [merged_eq, insertedAt_eq]
      have hn := wordBoundaries_length hi hine
      have hnp := wordBoundaries_length hp hpne
      have hcount := hws.count
      simp only [List.take_length] at hcount
      have hmeq : (delWs input ops).map (wordIdxOf (wordBoundaries input)) =
          (delWs input ops).map (fun p => (input.take p).countP isWsCl) := by
        apply List.map_congr_left
        intro p hpm
        have := hws.dpos p hpm
        exact wordIdxOf_ws hi p this.1 this.2
      have hmb : ∀ m ∈ (delWs input ops).map (wordIdxOf (wordBoundaries input)),
          m + 1 < (wordBoundaries input).length := by
        intro m hm
        rw [hmeq, List.mem_map] at hm
        obtain ⟨p, hpm, rfl⟩ := hm
        have := hws.dpos p hpm
        have := countP_take_lt_all input p this.1 this.2
        omega
      have hms : ((delWs input ops).map (wordIdxOf (wordBoundaries input))).Pairwise (· < ·) := by
        rw [hmeq, List.pairwise_map]
        refine List.Pairwise.imp_of_mem ?_ hws.dsorted
        intro p q hpm _ hpq
        have := hws.dpos p hpm
        exact countP_take_lt input p q this.1 this.2 hpq
      have hib : ∀ w ∈ (insWs pred ops).map (wordIdxOf (wordBoundaries input)),
          w < (wordBoundaries input).length := by
        intro w hw
        rw [List.mem_map] at hw
        obtain ⟨p, hpm, rfl⟩ := hw
        exact wordIdxOf_lt hi hine p (by have := hws.ipos p hpm; omega)
      obtain ⟨c, hc⟩ := groupLoop_spec (wordBoundaries input).length _
        (fun w => (((insWs pred ops).map (wordIdxOf (wordBoundaries input))).filter (· == w)).length)
        matching hmb ((wordBoundaries input).length + 1) 0 0 [] (by omega) (by omega)
      have htot := gwPhi_total _ _ (wordBoundaries input).length hms
        (fun m hm => by have := hmb m hm; omega) hib
      simp only [List.length_map] at htot
      rw [hc]
      simp only [Nat.sub_zero, Nat.zero_add]
      have : gwPhi ((delWs input ops).map (wordIdxOf (wordBoundaries input)))
          (fun w => (((insWs pred ops).map (wordIdxOf (wordBoundaries input))).filter (· == w)).length)
          (wordBoundaries input).length 0 = (wordBoundaries pred).length := by omega
      rw [this]
      simp

theorem groupWordsWith_isSome (input pred : List (List Nat)) (hi : CleanB input = true) (hp : CleanB pred = true)
    (ops : List (EKind × Nat × Nat)) (ha : scriptAccept { swap := false, sid := true } input pred ops = true)
    (matching : List Nat) : (groupWordsWith ops input pred matching).isSome = true :=
  groupWordsWith_of_wsOK input pred hi hp ops (accept_wsOK input pred ops ha) matching

end Tu
