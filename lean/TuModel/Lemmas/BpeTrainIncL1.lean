/-
  Lemmas for the incremental BPE trainer model (Model/BpeTrainInc.lean), part 1:
  association lists, the meaning of a `Stats` value (`freqOf`, `occOf`, `hasKey`), the effect of `statsDec` / `statsInc`.
-/
import TuModel.Model.BpeTrainInc
namespace Tu.BpeTrainIncL
open Tu

/-! ### association lists -/
section AL
set_option linter.unusedSectionVars false
variable {κ β : Type} [BEq κ] [LawfulBEq κ] [DecidableEq κ]

def alKeys (l : List (κ × β)) : List κ := l.map (·.1)

@[simp] theorem alKeys_nil : alKeys ([] : List (κ × β)) = [] := rfl
@[simp] theorem alKeys_cons (e : κ × β) (r : List (κ × β)) : alKeys (e :: r) = e.1 :: alKeys r := rfl

theorem alGet_nil (k : κ) : alGet ([] : List (κ × β)) k = none := rfl
theorem alGet_cons (k' : κ) (v : β) (r : List (κ × β)) (k : κ) :
    alGet ((k', v) :: r) k = if k' == k then some v else alGet r k := rfl
theorem alModify_nil (f : β → β) (k : κ) : alModify f ([] : List (κ × β)) k = [] := rfl
theorem alModify_cons (f : β → β) (k' : κ) (v : β) (r : List (κ × β)) (k : κ) :
    alModify f ((k', v) :: r) k = if k' == k then (k', f v) :: r else (k', v) :: alModify f r k := rfl
theorem alUpsert_nil (f : β → β) (d : β) (k : κ) : alUpsert f d ([] : List (κ × β)) k = [(k, d)] := rfl
theorem alUpsert_cons (f : β → β) (d : β) (k' : κ) (v : β) (r : List (κ × β)) (k : κ) :
    alUpsert f d ((k', v) :: r) k = if k' == k then (k', f v) :: r else (k', v) :: alUpsert f d r k := rfl

theorem alGet_eq_none_iff (l : List (κ × β)) (k : κ) : alGet l k = none ↔ k ∉ alKeys l := by
  induction l with
  | nil => simp [alGet_nil]
  | cons e r ih =>
    obtain ⟨k', v⟩ := e
    rw [alGet_cons]
    by_cases h : k' = k
    · subst h; simp
    · have : (k' == k) = false := by simpa using h
      rw [this]
      simp only [Bool.false_eq_true, if_false, alKeys_cons, List.mem_cons, not_or]
      rw [ih]
      constructor
      · intro h2; exact ⟨fun h3 => h h3.symm, h2⟩
      · intro h2; exact h2.2

theorem alGet_isSome_iff (l : List (κ × β)) (k : κ) : (∃ v, alGet l k = some v) ↔ k ∈ alKeys l := by
  have := alGet_eq_none_iff l k
  cases h : alGet l k with
  | none => rw [h] at this; simp at this; simp [this]
  | some v =>
    rw [h] at this; simp at this
    simp [this]

theorem alGet_modify (f : β → β) (l : List (κ × β)) (k k' : κ) :
    alGet (alModify f l k) k' = if k = k' then (alGet l k').map f else alGet l k' := by
  induction l with
  | nil => simp [alModify_nil, alGet_nil]
  | cons e r ih =>
    obtain ⟨k0, v⟩ := e
    rw [alModify_cons]
    by_cases h0 : k0 = k
    · subst h0
      simp only [beq_self_eq_true, if_true, alGet_cons]
      by_cases h1 : k0 = k'
      · subst h1; simp
      · have : (k0 == k') = false := by simpa using h1
        simp [this, h1]
    · have e0 : (k0 == k) = false := by simpa using h0
      rw [e0]
      simp only [Bool.false_eq_true, if_false, alGet_cons]
      rw [ih]
      by_cases h1 : k0 = k'
      · subst h1
        have : ¬ k = k0 := fun h => h0 h.symm
        simp [this]
      · have : (k0 == k') = false := by simpa using h1
        simp [this]

theorem alKeys_modify (f : β → β) (l : List (κ × β)) (k : κ) : alKeys (alModify f l k) = alKeys l := by
  induction l with
  | nil => rfl
  | cons e r ih =>
    obtain ⟨k0, v⟩ := e
    rw [alModify_cons]
    split
    · rfl
    · simp [ih]

theorem alGet_upsert (f : β → β) (d : β) (l : List (κ × β)) (k k' : κ) :
    alGet (alUpsert f d l k) k' =
      if k = k' then some (((alGet l k).map f).getD d) else alGet l k' := by
  induction l with
  | nil =>
    rw [alUpsert_nil, alGet_cons, alGet_nil, alGet_nil]
    by_cases h : k = k'
    · subst h; simp
    · have : (k == k') = false := by simpa using h
      simp [this, h]
  | cons e r ih =>
    obtain ⟨k0, v⟩ := e
    rw [alUpsert_cons]
    by_cases h0 : k0 = k
    · subst h0
      simp only [beq_self_eq_true, if_true, alGet_cons]
      by_cases h1 : k0 = k'
      · subst h1; simp
      · have : (k0 == k') = false := by simpa using h1
        simp [this, h1]
    · have e0 : (k0 == k) = false := by simpa using h0
      rw [e0]
      simp only [Bool.false_eq_true, if_false, alGet_cons]
      rw [ih, e0]
      simp only [Bool.false_eq_true, if_false]
      by_cases h1 : k0 = k'
      · subst h1
        have : ¬ k = k0 := fun h => h0 h.symm
        simp [this]
      · have : (k0 == k') = false := by simpa using h1
        simp [this]

theorem alKeys_upsert (f : β → β) (d : β) (l : List (κ × β)) (k : κ) :
    alKeys (alUpsert f d l k) = if k ∈ alKeys l then alKeys l else alKeys l ++ [k] := by
  induction l with
  | nil => simp [alUpsert_nil]
  | cons e r ih =>
    obtain ⟨k0, v⟩ := e
    rw [alUpsert_cons]
    by_cases h0 : k0 = k
    · subst h0; simp
    · have e0 : (k0 == k) = false := by simpa using h0
      rw [e0]
      simp only [Bool.false_eq_true, if_false, alKeys_cons, ih, List.mem_cons]
      have : ¬ k = k0 := fun h => h0 h.symm
      simp only [this, false_or]
      split <;> simp

theorem mem_alKeys_upsert (f : β → β) (d : β) (l : List (κ × β)) (k k' : κ) :
    k' ∈ alKeys (alUpsert f d l k) ↔ k' ∈ alKeys l ∨ k' = k := by
  rw [alKeys_upsert]
  split
  · rename_i h
    constructor
    · intro h'; exact Or.inl h'
    · intro h'; rcases h' with h' | h'
      · exact h'
      · rw [h']; exact h
  · simp

theorem nodup_alKeys_upsert (f : β → β) (d : β) (l : List (κ × β)) (k : κ) (h : (alKeys l).Nodup) :
    (alKeys (alUpsert f d l k)).Nodup := by
  rw [alKeys_upsert]
  split
  · exact h
  · rename_i hk
    rw [List.nodup_append]
    refine ⟨h, by simp, ?_⟩
    intro a ha b hb
    simp at hb
    subst hb
    intro hab; subst hab; exact hk ha

theorem alGet_of_mem (l : List (κ × β)) (h : (alKeys l).Nodup) (e : κ × β) (he : e ∈ l) : alGet l e.1 = some e.2 := by
  induction l with
  | nil => simp at he
  | cons e0 r ih =>
    obtain ⟨k0, v⟩ := e0
    rw [alGet_cons]
    simp only [alKeys_cons, List.nodup_cons] at h
    rcases List.mem_cons.mp he with he | he
    · subst he; simp
    · have : k0 ≠ e.1 := by
        intro hk
        apply h.1
        rw [hk]
        exact List.mem_map_of_mem he
      have e0 : (k0 == e.1) = false := by simpa using this
      rw [e0]
      exact ih h.2 he

theorem mem_of_alGet (l : List (κ × β)) (k : κ) (v : β) (h : alGet l k = some v) : (k, v) ∈ l := by
  induction l with
  | nil => simp [alGet_nil] at h
  | cons e0 r ih =>
    obtain ⟨k0, v0⟩ := e0
    rw [alGet_cons] at h
    by_cases h0 : k0 = k
    · subst h0; simp at h; subst h; simp
    · have e0 : (k0 == k) = false := by simpa using h0
      rw [e0] at h
      exact List.mem_cons_of_mem _ (ih h)

end AL

/-! ### the meaning of a `Stats` value -/

def freqOf (st : Stats) (q : BPair) : Nat :=
  match alGet st q with
  | some info => info.1
  | none => 0

def occOf (st : Stats) (q : BPair) (i : Nat) : Nat :=
  match alGet st q with
  | some info => (alGet info.2 i).getD 0
  | none => 0

/-- the entry of `q` exists and its `words` map has the key `i` -/
def hasKey (st : Stats) (q : BPair) (i : Nat) : Prop := ∃ info, alGet st q = some info ∧ i ∈ alKeys info.2

/-- structural well-formedness of a `Stats` value as a pair of hash maps: no duplicate keys, word indices in range -/
def StatsWf (n : Nat) (st : Stats) : Prop :=
  (alKeys st).Nodup ∧ ∀ q info, alGet st q = some info → (alKeys info.2).Nodup ∧ ∀ i, i ∈ alKeys info.2 → i < n

/-- the function `statsDec` applies to the entry -/
def decFn (idx f : Nat) (info : PairInfo) : PairInfo := (info.1 - f, alModify (fun occ => occ - 1) info.2 idx)
/-- the function `statsInc` applies to an existing entry -/
def incFn (idx f : Nat) (info : PairInfo) : PairInfo := (info.1 + f, alUpsert (fun occ => occ + 1) 1 info.2 idx)

theorem statsDec_eq (st : Stats) (q : BPair) (idx f : Nat) (h : hasKey st q idx) :
    statsDec st q idx f = some (alModify (decFn idx f) st q) := by
  obtain ⟨info, h1, h2⟩ := h
  obtain ⟨v, hv⟩ := (alGet_isSome_iff info.2 idx).mpr h2
  unfold statsDec
  rw [h1]
  simp only
  rw [hv]
  rfl

theorem statsInc_eq (st : Stats) (q : BPair) (idx f : Nat) :
    statsInc st q idx f = alUpsert (incFn idx f) (f, [(idx, 1)]) st q := rfl

theorem alGet_dec (st : Stats) (q q' : BPair) (idx f : Nat) :
    alGet (alModify (decFn idx f) st q) q' = if q = q' then (alGet st q').map (decFn idx f) else alGet st q' :=
  alGet_modify _ _ _ _

theorem freqOf_dec (st : Stats) (q q' : BPair) (idx f : Nat) :
    freqOf (alModify (decFn idx f) st q) q' = if q = q' then freqOf st q' - f else freqOf st q' := by
  unfold freqOf
  rw [alGet_dec]
  by_cases h : q = q'
  · simp only [h, if_true]
    cases alGet st q' with
    | none => simp
    | some info => simp [decFn]
  · simp only [h, if_false]

theorem occOf_dec (st : Stats) (q q' : BPair) (idx f i : Nat) :
    occOf (alModify (decFn idx f) st q) q' i = if q = q' ∧ idx = i then occOf st q' i - 1 else occOf st q' i := by
  unfold occOf
  rw [alGet_dec]
  by_cases h : q = q'
  · simp only [h, if_true, true_and]
    cases alGet st q' with
    | none => simp
    | some info =>
      simp only [Option.map_some, decFn]
      rw [alGet_modify]
      by_cases h2 : idx = i
      · simp only [h2, if_true]
        cases alGet info.2 i <;> simp
      · simp only [h2, if_false]
  · simp only [h, if_false, false_and]

theorem hasKey_dec (st : Stats) (q q' : BPair) (idx f i : Nat) :
    hasKey (alModify (decFn idx f) st q) q' i ↔ hasKey st q' i := by
  unfold hasKey
  rw [alGet_dec]
  by_cases h : q = q'
  · simp only [h, if_true]
    cases alGet st q' with
    | none => simp
    | some info =>
      simp only [Option.map_some, decFn]
      constructor
      · rintro ⟨info', h1, h2⟩
        simp only [Option.some.injEq] at h1
        subst h1
        rw [alKeys_modify] at h2
        exact ⟨info, rfl, h2⟩
      · rintro ⟨info', h1, h2⟩
        simp only [Option.some.injEq] at h1
        subst h1
        exact ⟨_, rfl, by rw [alKeys_modify]; exact h2⟩
  · simp only [h, if_false]

theorem StatsWf_dec (n : Nat) (st : Stats) (q : BPair) (idx f : Nat) (h : StatsWf n st) :
    StatsWf n (alModify (decFn idx f) st q) := by
  refine ⟨by rw [alKeys_modify]; exact h.1, ?_⟩
  intro q' info' hq
  rw [alGet_dec] at hq
  by_cases hqq : q = q'
  · simp only [hqq, if_true] at hq
    cases hg : alGet st q' with
    | none => rw [hg] at hq; simp at hq
    | some info =>
      rw [hg] at hq
      simp only [Option.map_some, Option.some.injEq, decFn] at hq
      subst hq
      simp only [alKeys_modify]
      exact h.2 q' info hg
  · simp only [hqq, if_false] at hq
    exact h.2 q' info' hq

theorem alGet_inc (st : Stats) (q q' : BPair) (idx f : Nat) :
    alGet (statsInc st q idx f) q' =
      if q = q' then some (((alGet st q).map (incFn idx f)).getD (f, [(idx, 1)])) else alGet st q' := by
  rw [statsInc_eq]
  exact alGet_upsert (incFn idx f) (f, [(idx, 1)]) st q q'

theorem freqOf_inc (st : Stats) (q q' : BPair) (idx f : Nat) :
    freqOf (statsInc st q idx f) q' = if q = q' then freqOf st q' + f else freqOf st q' := by
  unfold freqOf
  rw [alGet_inc]
  by_cases h : q = q'
  · subst h
    simp only [if_true]
    cases alGet st q with
    | none => simp
    | some info => simp [incFn]
  · simp only [h, if_false]

theorem occOf_inc (st : Stats) (q q' : BPair) (idx f i : Nat) :
    occOf (statsInc st q idx f) q' i = if q = q' ∧ idx = i then occOf st q' i + 1 else occOf st q' i := by
  unfold occOf
  rw [alGet_inc]
  by_cases h : q = q'
  · subst h
    simp only [if_true, true_and]
    cases alGet st q with
    | none =>
      simp only [Option.map_none, Option.getD_none, alGet_cons, alGet_nil]
      by_cases h2 : idx = i
      · simp [h2]
      · have : (idx == i) = false := by simpa using h2
        simp [this, h2]
    | some info =>
      simp only [Option.map_some, Option.getD_some, incFn]
      rw [alGet_upsert]
      by_cases h2 : idx = i
      · subst h2
        simp only [if_true]
        cases alGet info.2 idx <;> simp
      · simp only [h2, if_false]
  · simp only [h, if_false, false_and]

theorem hasKey_inc (st : Stats) (q q' : BPair) (idx f i : Nat) (h : hasKey st q' i) :
    hasKey (statsInc st q idx f) q' i := by
  obtain ⟨info, h1, h2⟩ := h
  unfold hasKey
  rw [alGet_inc]
  by_cases hq : q = q'
  · subst hq
    simp only [if_true, h1, Option.map_some, Option.getD_some, incFn]
    refine ⟨_, rfl, ?_⟩
    rw [mem_alKeys_upsert]
    exact Or.inl h2
  · simp only [hq, if_false]
    exact ⟨info, h1, h2⟩

theorem hasKey_inc_self (st : Stats) (q : BPair) (idx f : Nat) : hasKey (statsInc st q idx f) q idx := by
  unfold hasKey
  rw [alGet_inc]
  simp only [if_true]
  refine ⟨_, rfl, ?_⟩
  cases alGet st q with
  | none => simp
  | some info =>
    simp only [Option.map_some, Option.getD_some, incFn]
    rw [mem_alKeys_upsert]
    exact Or.inr rfl

theorem StatsWf_inc (n : Nat) (st : Stats) (q : BPair) (idx f : Nat) (h : StatsWf n st) (hidx : idx < n) :
    StatsWf n (statsInc st q idx f) := by
  refine ⟨by rw [statsInc_eq]; exact nodup_alKeys_upsert _ _ _ _ h.1, ?_⟩
  intro q' info' hq
  rw [alGet_inc] at hq
  by_cases hqq : q = q'
  · subst hqq
    simp only [if_true, Option.some.injEq] at hq
    cases hg : alGet st q with
    | none =>
      rw [hg] at hq
      simp only [Option.map_none, Option.getD_none] at hq
      subst hq
      simp
      exact hidx
    | some info =>
      rw [hg] at hq
      simp only [Option.map_some, Option.getD_some, incFn] at hq
      subst hq
      have := h.2 q info hg
      refine ⟨nodup_alKeys_upsert _ _ _ _ this.1, ?_⟩
      intro i hi
      rw [mem_alKeys_upsert] at hi
      rcases hi with hi | hi
      · exact this.2 i hi
      · rw [hi]; exact hidx
  · simp only [hqq, if_false] at hq
    exact h.2 q' info' hq

theorem occOf_pos_hasKey (st : Stats) (q : BPair) (i : Nat) (h : 0 < occOf st q i) : hasKey st q i := by
  unfold occOf at h
  unfold hasKey
  cases hg : alGet st q with
  | none => rw [hg] at h; simp at h
  | some info =>
    rw [hg] at h
    refine ⟨info, rfl, ?_⟩
    simp only at h
    cases hi : alGet info.2 i with
    | none => rw [hi] at h; simp at h
    | some v => exact (alGet_isSome_iff info.2 i).mp ⟨v, hi⟩

end Tu.BpeTrainIncL
