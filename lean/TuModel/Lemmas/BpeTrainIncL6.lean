/-
  Lemmas for the incremental BPE trainer model, part 6: zeroing of the merged pair, `replace_pair`, and one full
  step of the merge loop (with the freshness of the merged token as a hypothesis; it is discharged in part 7).
-/
import TuModel.Lemmas.BpeTrainIncL5
import TuModel.Lemmas.BpeTrainL
namespace Tu.BpeTrainIncL
open Tu

/-! ### zeroing the merged pair -/

def zeroFn (info : PairInfo) : PairInfo := (0, info.2.map (fun io => (io.1, 0)))

theorem alKeys_zero (ws : List (Nat × Nat)) : alKeys (ws.map (fun io => (io.1, 0))) = alKeys ws := by
  unfold alKeys
  rw [List.map_map]
  rfl

theorem alGet_zero : ∀ (ws : List (Nat × Nat)) (i : Nat),
    alGet (ws.map (fun io => (io.1, 0))) i = (alGet ws i).map (fun _ => 0) := by
  intro ws
  induction ws with
  | nil => intro i; rfl
  | cons e r ih =>
    intro i
    obtain ⟨k, v⟩ := e
    rw [List.map_cons, alGet_cons, alGet_cons, ih]
    split <;> rfl

theorem zero_ok (p : BPair) (c : Corpus) (st : Stats) (info : PairInfo) (h : StatsOk c st) (hg : alGet st p = some info) :
    MidInv p c (alModify zeroFn st p) ∧ ∀ i, i ∈ alKeys info.2 → hasKey (alModify zeroFn st p) p i := by
  have hget : ∀ q, alGet (alModify zeroFn st p) q = if p = q then (alGet st q).map zeroFn else alGet st q :=
    fun q => alGet_modify _ _ _ _
  refine ⟨⟨?_, ?_, ?_⟩, ?_⟩
  · refine ⟨by rw [alKeys_modify]; exact h.1.1, ?_⟩
    intro q info' hq
    rw [hget] at hq
    by_cases hpq : p = q
    · subst hpq
      simp only [if_true, hg, Option.map_some, Option.some.injEq] at hq
      subst hq
      simp only [zeroFn, alKeys_zero]
      exact h.1.2 p info hg
    · simp only [hpq, if_false] at hq
      exact h.1.2 q info' hq
  · intro q hqp
    have hpq : ¬ p = q := fun hh => hqp hh.symm
    have e : alGet (alModify zeroFn st p) q = alGet st q := by rw [hget]; simp only [hpq, if_false]
    refine ⟨?_, ?_⟩
    · rw [← (h.2 q).1]; unfold freqOf; rw [e]
    · intro i; rw [← (h.2 q).2 i]; unfold occOf; rw [e]
  · have e : alGet (alModify zeroFn st p) p = some (zeroFn info) := by rw [hget]; simp [hg]
    refine ⟨?_, ?_⟩
    · unfold freqOf; rw [e]; rfl
    · intro i
      unfold occOf
      rw [e]
      simp only [zeroFn, alGet_zero]
      cases alGet info.2 i <;> rfl
  · intro i hi
    refine ⟨zeroFn info, ?_, ?_⟩
    · rw [hget]; simp [hg]
    · simp only [zeroFn, alKeys_zero]; exact hi

/-! ### `replace_pair` -/

/-- the changes `replace_pair` records for the `words` map `ws` of the pair, on the vocabulary `c` -/
def chOf (x y : Tok) (c : Corpus) : List (Nat × Nat) → Changes
  | [] => []
  | (idx, occ) :: r =>
    if occ < 1 then chOf x y c r
    else
      match c[idx]? with
      | none => chOf x y c r
      | some (w, f) => (idx, w, replacePairInWord w x y, f) :: chOf x y c r

theorem replacePairLoop_spec (p : BPair) (c : Corpus) : ∀ (ws : List (Nat × Nat)) (c0 : Corpus) (ch0 : Changes),
    (alKeys ws).Nodup → (∀ i ∈ alKeys ws, i < c.length) → (∀ i ∈ alKeys ws, c0[i]? = c[i]?) →
    replacePairLoop p ws c0 ch0 = some (applyChanges c0 (chOf p.1 p.2 c ws), ch0 ++ chOf p.1 p.2 c ws) := by
  intro ws
  induction ws with
  | nil => intro c0 ch0 _ _ _; simp [replacePairLoop, chOf, applyChanges]
  | cons e r ih =>
    intro c0 ch0 hnd hlt hsame
    obtain ⟨idx, occ⟩ := e
    simp only [alKeys_cons, List.nodup_cons] at hnd
    have hlt' : ∀ i ∈ alKeys r, i < c.length := fun i hi => hlt i (by simp [hi])
    have hsame' : ∀ i ∈ alKeys r, c0[i]? = c[i]? := fun i hi => hsame i (by simp [hi])
    rw [replacePairLoop, chOf]
    by_cases hocc : occ < 1
    · rw [if_pos hocc, if_pos hocc]
      exact ih c0 ch0 hnd.2 hlt' hsame'
    · rw [if_neg hocc, if_neg hocc]
      have hi := hlt idx (by simp)
      have hs := hsame idx (by simp)
      obtain ⟨⟨w, f⟩, hw⟩ : ∃ e, c[idx]? = some e := ⟨c[idx], List.getElem?_eq_getElem hi⟩
      rw [hs, hw]
      simp only []
      rw [ih _ _ hnd.2 hlt' (by
        intro i hi'
        have : idx ≠ i := by intro hh; subst hh; exact hnd.1 hi'
        rw [List.getElem?_set_ne this]
        exact hsame' i hi')]
      simp [applyChanges]

theorem chOf_mem (x y : Tok) (c : Corpus) : ∀ (ws : List (Nat × Nat)) (e : Nat × List Tok × List Tok × Nat), e ∈ chOf x y c ws →
    ∃ occ, (e.1, occ) ∈ ws ∧ 1 ≤ occ ∧ c[e.1]? = some (e.2.1, e.2.2.2) ∧ e.2.2.1 = replacePairInWord e.2.1 x y := by
  intro ws
  induction ws with
  | nil => intro e h; simp [chOf] at h
  | cons e0 r ih =>
    intro e h
    obtain ⟨idx, occ⟩ := e0
    rw [chOf] at h
    by_cases hocc : occ < 1
    · rw [if_pos hocc] at h
      obtain ⟨o, h1, h2⟩ := ih e h
      exact ⟨o, List.mem_cons_of_mem _ h1, h2⟩
    · rw [if_neg hocc] at h
      cases hw : c[idx]? with
      | none =>
        rw [hw] at h
        obtain ⟨o, h1, h2⟩ := ih e h
        exact ⟨o, List.mem_cons_of_mem _ h1, h2⟩
      | some wf =>
        obtain ⟨w, f⟩ := wf
        rw [hw] at h
        simp only [List.mem_cons] at h
        rcases h with h | h
        · subst h
          exact ⟨occ, by simp, by omega, hw, rfl⟩
        · obtain ⟨o, h1, h2⟩ := ih e h
          exact ⟨o, List.mem_cons_of_mem _ h1, h2⟩

theorem chOf_keys_sub (x y : Tok) (c : Corpus) : ∀ (ws : List (Nat × Nat)), ((chOf x y c ws).map (·.1)).Sublist (alKeys ws) := by
  intro ws
  induction ws with
  | nil => simp [chOf]
  | cons e0 r ih =>
    obtain ⟨idx, occ⟩ := e0
    rw [chOf]
    by_cases hocc : occ < 1
    · rw [if_pos hocc]; exact List.Sublist.cons _ ih
    · rw [if_neg hocc]
      cases hw : c[idx]? with
      | none => exact List.Sublist.cons _ ih
      | some wf =>
        obtain ⟨w, f⟩ := wf
        simp only [List.map_cons, alKeys_cons]
        exact List.Sublist.cons_cons _ ih

theorem chOf_covers (x y : Tok) (c : Corpus) : ∀ (ws : List (Nat × Nat)) (idx occ : Nat), (idx, occ) ∈ ws → 1 ≤ occ →
    idx < c.length → idx ∈ (chOf x y c ws).map (·.1) := by
  intro ws
  induction ws with
  | nil => intro idx occ h; cases h
  | cons e0 r ih =>
    intro idx occ h hocc hlt
    obtain ⟨idx0, occ0⟩ := e0
    rw [chOf]
    rcases List.mem_cons.mp h with h | h
    · simp only [Prod.mk.injEq] at h
      obtain ⟨rfl, rfl⟩ := h
      rw [if_neg (by omega)]
      obtain ⟨⟨w, f⟩, hw⟩ : ∃ e, c[idx]? = some e := ⟨c[idx], List.getElem?_eq_getElem hlt⟩
      rw [hw]
      simp
    · have := ih idx occ h hocc hlt
      by_cases hocc0 : occ0 < 1
      · rw [if_pos hocc0]; exact this
      · rw [if_neg hocc0]
        cases hw : c[idx0]? with
        | none => exact this
        | some wf =>
          obtain ⟨w, f⟩ := wf
          simp only [List.map_cons, List.mem_cons]
          exact Or.inr this

/-! ### the vocabulary after the changes -/

theorem getElem?_applyChanges_not_mem : ∀ (ch : Changes) (c : Corpus) (i : Nat), i ∉ ch.map (·.1) →
    (applyChanges c ch)[i]? = c[i]? := by
  intro ch
  induction ch with
  | nil => intro c i _; rfl
  | cons e r ih =>
    intro c i hi
    simp only [List.map_cons, List.mem_cons, not_or] at hi
    rw [applyChanges, ih _ i hi.2, List.getElem?_set_ne (fun hh => hi.1 hh.symm)]

theorem getElem?_applyChanges_mem : ∀ (ch : Changes) (c : Corpus) (e : Nat × List Tok × List Tok × Nat),
    (ch.map (·.1)).Nodup → e ∈ ch → e.1 < c.length → (applyChanges c ch)[e.1]? = some (e.2.2.1, e.2.2.2) := by
  intro ch
  induction ch with
  | nil => intro c e _ h; cases h
  | cons e0 r ih =>
    intro c e hnd he hlt
    simp only [List.map_cons, List.nodup_cons] at hnd
    rw [applyChanges]
    rcases List.mem_cons.mp he with he | he
    · subst he
      rw [getElem?_applyChanges_not_mem r _ _ hnd.1, List.getElem?_set_self hlt]
    · exact ih _ e hnd.2 he (by rw [List.length_set]; exact hlt)

theorem applyMerge_getElem? (c : Corpus) (p : BPair) (i : Nat) :
    (applyMerge c p)[i]? = (c[i]?).map (fun e => (replacePairInWord e.1 p.1 p.2, e.2)) := by
  unfold applyMerge
  rw [List.getElem?_map]

theorem pairFreq_applyMerge_self (x y : Tok) (hx : x ≠ []) (hy : y ≠ []) : ∀ (c : Corpus), pairFreq (applyMerge c (x, y)) (x, y) = 0 := by
  intro c
  induction c with
  | nil => rfl
  | cons e r ih =>
    obtain ⟨w, n⟩ := e
    have : applyMerge ((w, n) :: r) (x, y) = (replacePairInWord w x y, n) :: applyMerge r (x, y) := rfl
    rw [this, pairFreq_cons, ih, replacePairInWord_eq_rep w x y hy, rep_xy_zero' x y hx hy]
    simp

theorem wcount_applyMerge_self (x y : Tok) (hx : x ≠ []) (hy : y ≠ []) (c : Corpus) (i : Nat) :
    wcount (applyMerge c (x, y)) i (x, y) = 0 := by
  unfold wcount
  rw [List.getD_eq_getElem?_getD, applyMerge_getElem?]
  cases c[i]? with
  | none => rfl
  | some e =>
    simp only [Option.map_some, Option.getD_some]
    rw [replacePairInWord_eq_rep _ x y hy, wordPairCount_eq, rep_xy_zero' x y hx hy]

theorem pairFreq_pos_occurs (c : Corpus) (p : BPair) (hp : 0 < pairFreq c p) : ∃ w n, (w, n) ∈ c ∧ p ∈ wordPairs w :=
  (BpeTrainL.mem_allPairs c p).mp (BpeTrainL.pairFreq_pos_mem c p hp)

theorem alGet_of_freq_pos (st : Stats) (p : BPair) (h : 0 < freqOf st p) : ∃ info, alGet st p = some info := by
  unfold freqOf at h
  cases hg : alGet st p with
  | none => rw [hg] at h; simp at h
  | some info => exact ⟨info, rfl⟩

/-- **one step of the merge loop**, with the freshness of the merged token as a hypothesis -/
theorem trainStep_ok (c : Corpus) (st : Stats) (p : BPair) (h : StatsOk c st) (hp : 0 < pairFreq c p)
    (hne : ∀ e ∈ c, ∀ t ∈ e.1, t ≠ []) (hfresh : ∀ e ∈ c, (p.1 ++ p.2) ∉ e.1) :
    ∃ st', trainStep (c, st) p = some (applyMerge c p, st') ∧ StatsOk (applyMerge c p) st' := by
  obtain ⟨x, y⟩ := p
  simp only at hfresh
  -- the pair consists of non-empty tokens
  obtain ⟨w0, n0, hw0, hpw0⟩ := pairFreq_pos_occurs c (x, y) hp
  have hxy := BpeTrainL.wordPairs_mem w0 (x, y) hpw0
  have hx : x ≠ [] := hne _ hw0 x hxy.1
  have hy : y ≠ [] := hne _ hw0 y hxy.2
  -- its entry
  obtain ⟨info, hg⟩ := alGet_of_freq_pos st (x, y) (by rw [(h.2 (x, y)).1]; exact hp)
  obtain ⟨hnd, hbound⟩ := h.1.2 (x, y) info hg
  -- replace_pair
  have hrepl : replacePair c (x, y) st = some (applyChanges c (chOf x y c info.2), chOf x y c info.2) := by
    unfold replacePair
    rw [hg]
    simp only []
    rw [replacePairLoop_spec (x, y) c info.2 c [] hnd hbound (fun _ _ => rfl)]
    simp
  -- the change list is valid
  have hvalid : ValidCh x y c (chOf x y c info.2) := by
    refine ⟨List.Sublist.nodup (chOf_keys_sub x y c info.2) hnd, ?_⟩
    intro e he
    obtain ⟨occ, h1, h2, h3, h4⟩ := chOf_mem x y c info.2 e he
    refine ⟨h3, by rw [h4, replacePairInWord_eq_rep _ x y hy], ?_⟩
    exact hfresh _ (List.mem_of_getElem? h3)
  obtain ⟨hmid, hkeys⟩ := zero_ok (x, y) c st info h hg
  obtain ⟨st', hupd, hmid'⟩ := updateStatsLoop_ok x y hx hy (chOf x y c info.2) c _ hmid hvalid (by
    intro e he
    obtain ⟨occ, h1, _⟩ := chOf_mem x y c info.2 e he
    apply hkeys
    exact List.mem_map_of_mem (f := (·.1)) h1)
  have hupd' : updateStats st (x, y) (chOf x y c info.2) = some st' := by
    unfold updateStats
    rw [hg]
    exact hupd
  -- the vocabulary is the re-segmented corpus
  have hcorp : applyChanges c (chOf x y c info.2) = applyMerge c (x, y) := by
    apply List.ext_getElem?
    intro i
    rw [applyMerge_getElem?]
    by_cases hi : i ∈ (chOf x y c info.2).map (·.1)
    · obtain ⟨e, he, hei⟩ := List.mem_map.mp hi
      obtain ⟨occ, h1, h2, h3, h4⟩ := chOf_mem x y c info.2 e he
      have hlt : e.1 < c.length := (List.getElem?_eq_some_iff.mp h3).1
      rw [← hei, getElem?_applyChanges_mem _ c e hvalid.1 he hlt, h3]
      simp only [Option.map_some, h4]
    · rw [getElem?_applyChanges_not_mem _ c i hi]
      cases hci : c[i]? with
      | none => rfl
      | some e =>
        obtain ⟨w, n⟩ := e
        simp only [Option.map_some]
        have hlt : i < c.length := (List.getElem?_eq_some_iff.mp hci).1
        -- the counter of word `i` is 0, so the pair does not occur in it
        have hocc : occOf st (x, y) i = 0 := by
          unfold occOf
          rw [hg]
          simp only []
          cases hgi : alGet info.2 i with
          | none => rfl
          | some occ =>
            simp only [Option.getD_some]
            by_cases ho : 1 ≤ occ
            · exact absurd (chOf_covers x y c info.2 i occ (mem_of_alGet _ _ _ hgi) ho hlt) hi
            · omega
        rw [(h.2 (x, y)).2 i, wcount_of_get c i (x, y) w n hci] at hocc
        rw [replacePairInWord_eq_rep w x y hy, rep_noop x y w hocc]
  refine ⟨st', ?_, ?_⟩
  · unfold trainStep
    simp only []
    rw [hrepl]
    simp only []
    rw [hupd', hcorp]
  · rw [hcorp] at hmid'
    have hlen : (applyMerge c (x, y)).length = c.length := by unfold applyMerge; rw [List.length_map]
    refine ⟨hmid'.wf, ?_⟩
    intro q
    by_cases hq : q = (x, y)
    · subst hq
      refine ⟨?_, ?_⟩
      · rw [hmid'.self.1, pairFreq_applyMerge_self x y hx hy]
      · intro i
        rw [hmid'.self.2, wcount_applyMerge_self x y hx hy]
    · exact hmid'.other q hq

end Tu.BpeTrainIncL
