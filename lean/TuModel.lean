import TuModel.Model.Basic
import TuModel.Model.Wire
import TuModel.Model.Text
import TuModel.Model.Whitespace
import TuModel.Drive.TextD
import TuModel.Model.Edit
import TuModel.Drive.EditD
