import TuModel.Model.Basic
import TuModel.Model.Wire
import TuModel.Model.Text
import TuModel.Model.Whitespace
import TuModel.Drive.TextD
