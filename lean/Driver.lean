import TuModel.Drive.TextD
import TuModel.Drive.EditD
import TuModel.Drive.MatchD
import TuModel.Drive.WindowsD
import TuModel.Drive.TokD
import TuModel.Drive.BatchD
import TuModel.Drive.MultiGenD
import TuModel.Drive.PipeD
import TuModel.Drive.MetricsD
import TuModel.Drive.CorruptD
import TuModel.Drive.DictD
import TuModel.Drive.BpeTrainD
import TuModel.Drive.GroupsD
import TuModel.Drive.LoaderD
import TuModel.Drive.CharStringD
open Tu.Drive

def handle (line : String) : String :=
  match line.trimAscii.toString.splitOn " " with
  | [] => "bad-request"
  | op :: rest =>
    match rest.mapM String.toNat? with
    | none => "bad-request"
    | some args =>
      match ((((((((((((((textD op args).orElse (fun _ => editD op args)).orElse (fun _ => matchD op args)).orElse (fun _ => windowsD op args)).orElse (fun _ => tokD op args)).orElse (fun _ => batchD op args)).orElse (fun _ => multiGenD op args)).orElse (fun _ => pipeD op args)).orElse (fun _ => metricsD op args)).orElse (fun _ => corruptD op args)).orElse (fun _ => dictD op args)).orElse (fun _ => bpeTrainD op args)).orElse (fun _ => groupsD op args)).orElse (fun _ => loaderD op args)).orElse (fun _ => charStringD op args) with
      | some r => r
      | none => "unknown-op"

partial def loop (h : IO.FS.Stream) (out : IO.FS.Stream) : IO Unit := do
  let line ← h.getLine
  if line.isEmpty then return ()
  out.putStrLn (handle line)
  loop h out

def main : IO Unit := do
  let out ← IO.getStdout
  loop (← IO.getStdin) out
  out.flush
