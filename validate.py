#!/usr/bin/env python3-vt
"""validates MANIFEST.json and evidence/*.json against the schemas in /root/.vp"""
import glob, json, sys
import jsonschema
ok = True
def v(path, schema):
    global ok
    try:
        jsonschema.validate(json.load(open(path)), json.load(open(schema)))
    except Exception as e:
        ok = False
        print("INVALID", path, str(e)[:300])
v("MANIFEST.json", "/root/.vp/MANIFEST.schema.json")
for f in sorted(glob.glob("evidence/*.json")):
    v(f, "/root/.vp/EVIDENCE.schema.json")
print("all valid" if ok else "problems")
sys.exit(0 if ok else 1)
