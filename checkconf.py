"""Per-property configuration of ./check: anchors (for source fingerprints), generator description,
coverage floors, trusted base, known-finding matchers."""

UNICODE = ["Unicode tables: isWsCp is checked against char::is_whitespace by the harness; grapheme segmentation (unicode-segmentation) is supplied by the real code as cluster boundaries"]


def m_f13(req, impl, model, clause):
    # C11 grapheme mode: inserted space fuses with a following lone Extend cluster on re-segmentation
    return req.startswith("clean 1 ") and clause.startswith("F13 ")


def m_f12(req, impl, model, clause):
    # C12: spaces_insert_delete_only && normalized, value agrees with the model (= reference / longer length), in (1, 2]
    t = req.split(" ")
    if not (clause.startswith("F12 ") and t[0] == "dist" and t[3] == "1" and t[4] == "1" and model.startswith("ok q:")):
        return False
    num, den = model[5:].split("/")
    return int(den) > 0 and int(den) < int(num) <= 2 * int(den) and impl.startswith("ok f:") and abs(float(impl[5:]) - int(num) / int(den)) < 1e-9


def m_f14(req, impl, model, clause):
    return req.startswith("wsops 1 ") and clause.startswith("F14 ")


def m_f15(req, impl, model, clause):
    return req.startswith("corruptws 1 ") and clause.startswith("F15 ")


MATCHERS = {"f14_ws_splits_cluster": m_f14, "f15_corrupt_grapheme_resegmentation": m_f15, "f13_clean_grapheme_resegmentation": m_f13, "f12_sid_normalized_gt_one": m_f12}

PROPS = {
    "C01": dict(
        anchors=[("src/tokenization.rs", r"fn split_input<"), ("src/tokenization.rs", r"fn new_base_tokenizer\("), ("src/tokenization.rs", r"fn process_input\("), ("src/tokenization.rs", r"impl Tokenize for ByteTokenizer"), ("src/tokenization.rs", r"impl VocabTokenize<char> for CharTokenizer"), ("src/tokenization.rs", r"impl<Token, Config> Tokenize for VocabTokenizer<Token, Config>")],
        rule="configs: byte (byte / code-point groups, pad_to_multiple_of in {none,1,2,64,128,512}) and char (graphemes on/off, two unk spellings) x special token sets (default, extra tokens, duplicates, single token, non-ASCII tokens, a non-prefix-free stream <a>/<a>b, a clash with <extra_token_0>) x prefix/suffix lists of length 0-3 x ignore_special_tokens; strings mixing special spellings and near-spellings (<pad>, <pad, pad>, <<pad>>, <extra_token_1>, <extra_token_10>) with 1-4 byte characters, combining marks, ZWJ, CRLF, all White_Space; texts over the char alphabet (round-trip stream); arbitrary id sequences for de_tokenize; thorough adds all strings of <= 4 symbols over a 9-symbol alphabet x 4 configs x both flags",
        exhaustive={"thorough": "all strings of <= 4 symbols over {a,<,>,<pad>,pad,a-umlaut,U+0301,space,<unk>} x 4 configs x ignore_special_tokens"},
        trusted=UNICODE + ["regex crate: leftmost-first alternation of escaped literals (modelled by matchAt/splitAux and compared on every request); HashMap iteration order decides the alternation order: for token sets that are not prefix-free the model refuses the request and only the order-independent oracle is evaluated"],
        claim="Theorems (all byte strings, all token lists, any alternation order): splitInput_concat (pieces concatenate to the input), splitInput_special, byteTokenize_shape / byteTokenize_ignore / pieceIds_range (prefix ids, bytes as ids < 256, each special occurrence one id >= 256, suffix ids), byteDetok_text and byteDetok_tokenize_keep (decoding with special tokens kept returns prefix tokens + original bytes + suffix tokens, for every configuration accepted by the constructor), byte_roundtrip; charTokenize_length (one id per character / special occurrence), charId_regular_iff / charId_unk (unknown id iff not a single alphabet code point), charDetok_regular / char_roundtrip. Exact correspondence through tokenizer(cfg).tokenize / de_tokenize incl. token groups; oracle evaluates the property on the API.",
        note="Grapheme clusters and the piece segmentation are supplied by the real code (per regular piece); UTF-8 validity is modelled (validUtf8) and compared on arbitrary id sequences. Order independence of the split for prefix-free token sets is not yet a theorem (the model uses id order; disagreement would show in the correspondence).",
        min_nontrivial={"quick": 300, "thorough": 5000},
        reject_ok=True,
    ),
    "C02": dict(
        anchors=[("src/tokenization.rs", r"fn merge_bytes\("), ("src/tokenization.rs", r"impl Tokenize for BPETokenizer"), ("src/tokenization.rs", r"impl BPETokenizer")],
        rule="well-formed merge tables: 12 adversarial families (competing overlaps, chains ab/abc/abcd, aa-runs, merges that become possible only after a later merge, space-prefixed words) + random well-formed tables over 3-5 letters incl. a 2-byte letter, 0-40 entries; max_vocab_size below/at/above the table; prefix/suffix configs; strings over the table alphabet with all whitespace kinds, leading/trailing/multiple whitespace, special spellings; arbitrary id sequences for de_tokenize",
        trusted=UNICODE + ["regex \\s+\\S+|^\\S+ is modelled by splitWords and compared on every request; rmp-serde merge files are written with the crate's own SerializeMsgPack"],
        claim="Theorems for every well-formed merge table and every word of bytes: mergeWordImpl_concat (the ids produced by the heap-driven merge loop decode, token by token, to byte strings that concatenate to the word, and every id is < 256 + |table|, i.e. a vocabulary id), splitWords_flatten (the words of the splitter \\s+\\S+|^\\S+ concatenate to the text without its trailing whitespace), idBytes_eq_bpeIdBytes. Together: the decoded bytes of a tokenisation are the input bytes without trailing whitespace (hence valid UTF-8). Model of BPETokenizer (word splitting, merge loop with Rust's tuple ordering, truncation by max_vocab_size, tokenize/de_tokenize incl. UTF-8 validation) compared exactly with the implementation on every request; oracle: decode(encode(s)) == s.trim_end(), every id < vocab_size.",
        note="The end-to-end composition (tokenize -> de_tokenize at text level, prefix/suffix, max_vocab_size truncation preserving well-formedness) is covered by exact correspondence + the round-trip oracle; the word-level and splitter-level theorems are proved.",
        min_nontrivial={"quick": 300, "thorough": 5000},
        reject_ok=True,
    ),
    "C03": dict(
        anchors=[("src/tokenization.rs", r"fn merge_bytes\(")],
        rule="words over the table alphabet for the same table families as C02 (adversarial + random well-formed tables); op bpeword returns the implementation's ids for the word and an independent naive lowest-id-leftmost BPE written in the harness; the model returns mergeWordImpl and mergeWordSpec; thorough adds all words of length <= 6 over {a,b,c} for 112 tables",
        exhaustive={"thorough": "all 1092 words of length 1..6 over {a,b,c} x (12 adversarial + 100 random) tables"},
        trusted=["BinaryHeap pop order is modelled as 'a maximal element of Rust's derived tuple Ord' (HEntry.lt)"],
        claim="Theorems for every well-formed merge table and every word of bytes: mergeWordImpl_eq_spec (the heap-driven loop as coded — entries popped in Rust's tuple order, staleness test on recorded ids, re-push with updated ids — returns exactly the property's definition: repeatedly merge the adjacent pair with the lowest merge id, leftmost on ties, until none is mergeable), specLoop_terminal + terminal_iff (no adjacent pair of the result is a table key), bestPair_is_min (the spec's choice is the lowest-id leftmost mergeable pair), mergeWordImpl_isSome (the loop's fuel is never exhausted). Every request compares implementation == mergeWordImpl and an independent naive reference (harness) == mergeWordSpec, and the oracle demands implementation == naive reference.",
        note="BinaryHeap is modelled as 'pop a maximal element of the derived tuple Ord'. D2/D3 (stale heap entries, early exit) were found by this check and repaired by a fix: commit.",
        min_nontrivial={"quick": 300, "thorough": 5000},
    ),
    "C04": dict(
        anchors=[("src/tokenization.rs", r"impl Tokenize for BPETokenizer"), ("src/tokenization.rs", r"impl Tokenize for ByteTokenizer"), ("src/tokenization.rs", r"fn build\("), ("src/tokenization.rs", r"impl<Token, Config> Tokenize for VocabTokenizer<Token, Config>")],
        rule="byte / char / BPE tokenizers x special configs (duplicates, extra tokens, clash with <extra_token_0>, non-ASCII tokens, single token) x pad_to_multiple_of x merge tables (adversarial, random well-formed) x max_vocab_size below/at/above the table; each request returns vocab_size, the whole get_vocab, pad/prefix/suffix/unk ids, id_to_token for EVERY id in [0, vocab_size+300) and token_to_id for every vocabulary entry",
        exhaustive={"quick": "every id in [0, vocab_size + 300) and every vocabulary entry, per configuration", "thorough": "every id in [0, vocab_size + 300) and every vocabulary entry, per configuration"},
        trusted=["HashMap / BTreeMap of the vocabulary (only id-ordered observables are compared)"],
        claim="Theorems: uniq_nodup / uniq_mem (Vocab::build), special_tokenToId_idToToken, special_id_range + mkSpecial_range (pad, prefix, suffix ids in [offset, vocab_size) for every accepted configuration), byte/char/bpe_getVocab_length (= vocab_size), byte/char/bpe_idToToken_eq (id_to_token(id) = get_vocab()[id]? for EVERY id, hence None above vocab_size: *_idToToken_none), byte_tokenToId_idToToken, char_unk_range, idsComplete_of_wf, byte/bpe_detok_single. Exact correspondence of all vocabulary functions for every id; oracle evaluates the statement's equalities on the API.",
        note="token_to_id = inverse of id_to_token is proved for special tokens and the byte tokenizer; for char/BPE regular tokens it is covered by correspondence + oracle. D9 (BPE id_to_token off by 256) was found by this check and repaired by a fix: commit.",
        min_nontrivial={"quick": 50, "thorough": 1000},
        reject_ok=True,
    ),
    "C05": dict(
        anchors=[("src/data/loading.rs", r"fn new<I: Send \+ 'static>\("), ("src/data/loading.rs", r"impl<O> Iterator for Pipe<O>")],
        rule="controlled schedules: the cfg(feature=verif) schedule points of the worker loop call into a controller that lets exactly one participant (worker or consumer) run between two points; seeded random policies (with and without failing spins) over W in 1..6 and n in 0..20, depth-first enumeration of ALL progress-making schedules for small (W, n) by prefix replay, and uncontrolled stress runs on real OS schedules (W in 0..8 incl. the unthreaded branch, n <= 300, per-item delays). Every controlled execution is recorded as a trace of events (take/compute/spin/send/advance/recv/close with their observations), replayed a second time against the real code (determinism under the schedule) and validated step by step against the Lean transition system (every event must be enabled and the model must predict the observation)",
        exhaustive={"quick": "all progress-making schedules of (W=1,n=2) and (W=2,n=1) unless capped (see impl_outcome_histogram dfs:* keys)", "thorough": "all progress-making schedules of (W=1,n=2), (W=2,n=1), (W=2,n=2), (W=3,n=1) unless capped (see impl_outcome_histogram dfs:* keys: complete=true/false)"},
        trusted=["std::sync::mpsc::sync_channel, Mutex and SeqCst atomics are assumed linearizable as modelled (one shared operation per step)", "the schedule controller serialises threads at the hook points; code between two points touches at most one shared object", "OS scheduler fairness (liveness is proved as deadlock freedom + decreasing measure)"],
        claim="Labelled transition system of the Pipe (Model/Pipe.lean: ticket take under the mutex, compute, turn spin, channel send with capacity W, turn advance, receive, close, drop) validated against the real threads by trace validation under a controlled scheduler, plus output-only stress runs. Oracle on every run: received = f(x0), f(x1), ... in order, each item processed exactly once, the iteration ends. Theorems for every reachable state / every interleaving (pipe_safety, pipe_complete, pipe_deadlock_free, pipe_measure) are being proved against this model; those present in Props/C05.lean are audited on every run.",
        note="Memory orderings weaker than SeqCst and panics inside next() are not expressible in the model; real OS interleavings are covered by the stress runs (outputs only).",
        min_nontrivial={"quick": 100, "thorough": 2000},
    ),
    "C09": dict(
        anchors=[("src/data/loading.rs", r"fn new<I: Send \+ 'static>\("), ("src/data/loading.rs", r"pub fn new<I>\(iter: I, buffer_size: usize\)"), ("src/data/loading.rs", r"impl<O> Iterator for Pipe<O>")],
        rule="controlled schedules with a drop of the iterator after k received items (random policies, k in 0..20, W in 1..4, n up to 200; DFS over all schedules incl. the drop point for small (W, n)): pull counter of the upstream, thread-exit schedule points, bounds checked at every step; Buffered over bounded and effectively unbounded (0..u64::MAX) upstreams: consume k, measure the lookahead, drop, observe that the pull counter is stable and the thread-exit point fired; panic injection in a child process (the pipeline closure panics at item j; expected exit status 1 within 10 s, not a hang)",
        exhaustive={"thorough": "all progress-making schedules incl. every drop point of (W=1,n=2), (W=2,n=1), (W=2,n=2) unless capped (see dfs-drop:* keys)"},
        trusted=["as C05; std::process::exit terminating all threads is observed in the child-process test only", "Buffered is observed by timing (two reads of the pull counter 40 ms apart) rather than under the controller"],
        claim="Transition systems of Pipe (with drop) and Buffered (as repaired) validated by trace validation / observation; oracle: pulled <= consumed + 2*W at every step while the consumer is there, <= pulled_at_drop + W afterwards and every worker exits; Buffered: pulled <= consumed + B + 1, at most one further pull after the drop, thread exits; a panicking worker terminates the process. Theorems (pipe_lookahead, pipe_drop_stops, pipe_drop_exits, buffered_lookahead, buffered_drop_stops, buffered_drop_exits, buffered_complete) are being proved against the model; those present in Props/C09.lean are audited on every run.",
        note="D4 (buffer thread drains the upstream forever after a drop) was found by this check and repaired by a fix: commit. That std::process::exit really ends the process is runtime behaviour covered only by the child-process test.",
        min_nontrivial={"quick": 100, "thorough": 2000},
    ),
    "C06": dict(
        anchors=[("src/data/loading.rs", r"fn build_batch\("), ("src/data/loading.rs", r"fn batch_from\("), ("src/data/loading.rs", r"enum BatchLimit \{"), ("src/data/loading.rs", r"impl BatchLimit \{"), ("src/utils.rs", r"pub fn find_subsequences_of_max_size_k<")],
        rule="item vectors (unique id, size) of length 0-40 with sizes from {0,1,2,3,5,8,13,40} (all-zero, all-equal and all-oversized streams explicit) x sort x shuffle x prefetch 0-4 x limit 0-16 x {BatchSize, PaddedItemSize} x seeds; the request carries the batch sequence the real Batched iterator returned, the model replays it step by step (stepAllowed) and must end in the finished state; thorough adds all size vectors of length <= 5 with sizes <= 3 x all 8 flag combinations x limits {0,1,2,3,6} x prefetch {0,2}",
        exhaustive={"thorough": "all size vectors of length <= 5 over sizes 0..3 (1365) x sort x shuffle x limit type x limits {0,1,2,3,6} x prefetch {0,2}"},
        trusted=["ChaCha8 / rand (random_range, shuffle): random decisions are not modelled; the model is the relation 'this batch may be returned from this state' and every theorem holds for all allowed sequences"],
        claim="Theorems for every item sequence (distinct items), every configuration and EVERY sequence of allowed steps (hence every seed): step_spec / run_spec (batches non-empty; every batch with more than one item satisfies the limit; batches + buffer + upstream are a permutation of the input), batches_partition (complete iteration: every item in exactly one batch), step_decreases (termination: at most |items| batches), plain_step (without sort/shuffle: exactly one batch is allowed, concatenation = input order, greedy-maximal), batchFrom_spec, findSubseq_sound (every window returned by find_subsequences_of_max_size_k fits the limit). Correspondence: every observed batch of the real iterator must be allowed by the model from the model's state (exact equality in the deterministic modes) and the final state must be finished; oracle: partition / non-empty / limit / determinism in the seed (two runs) / order and greediness in plain mode.",
        note="Determinism in the seed is checked by running twice (the model is a relation, not a function of the seed). Progress (some batch is always allowed while items remain) is not yet a theorem; termination of the implementation is enforced by the harness watchdog.",
        min_nontrivial={"quick": 500, "thorough": 5000},
    ),
    "C07": dict(
        anchors=[("src/data/loading.rs", r"fn next_idx\(&mut self\)"), ("src/data/loading.rs", r"impl Iterator for MultiTrainDataGenerator"), ("src/data/loading.rs", r"impl MultiTrainDataGenerator \{")],
        rule="vectors of source lengths (1-6 sources, lengths 0-30, ~15% empty sources, single source, unequal lengths) x 3 strategies x seeds, realised as temporary jsonl files whose lines carry their identity '<src>-<k>' and read through train_data_generator_from_jsonl; sequential / interleaved: exact output sequence (item, source tag); weighted: the observed tag sequence must be a merge of the sources that exhausts all of them; every next() under a watchdog; thorough adds all length vectors of 1-4 sources with lengths 0-4",
        exhaustive={"thorough": "all length vectors of 1..4 sources with lengths 0..4 (780) x 3 strategies"},
        trusted=["WeightedIndex / ChaCha8: the weighted draws are choices; the model admits every merge", "file system and serde_json (jsonl reading)"],
        claim="Theorems for every non-empty list of sources, every strategy and every choice stream (random draws): mgRun_merge (the output is a merge of the sources that exhausts all of them: every yield is the next item of the source it is tagged with; the iteration terminates — the fuels are proved sufficient), consume_projection + mgRun_per_source (the items tagged k, in output order, are exactly source k), mgRun_length, sequential_order (= source after source), interleaved_round_robin (= rows of heads of the sources that still have items). Exact correspondence for sequential and interleaved, relational (merge) for weighted, constructor error for weighted with an empty source; oracle: every item exactly once, per-source order, tags, strategy order, reproducibility from the seed, termination (watchdog).",
        note="D5 (interleaved never returns once one source is left) was found by this check (watchdog) and repaired by a fix: commit.",
        min_nontrivial={"quick": 200, "thorough": 2000},
    ),
    "C10": dict(
        anchors=[("src/whitespace.rs", r"pub fn operations\("), ("src/whitespace.rs", r"pub fn repair\(")],
        rule="pairs built from one non-whitespace skeleton with independent spacings (70%), non-clean / unequal pairs (30%), arbitrary operation sequences for repair; both modes; thorough adds all pairs of strings of length <= 4 over {a,b,space,U+3000}",
        exhaustive={"thorough": "wsops on all pairs of strings of length <= 4 over a 4-symbol alphabet (code-point mode)"},
        trusted=UNICODE,
        min_nontrivial={"quick": 500, "thorough": 5000},
        claim="Theorems (all texts, all operation lists, no size bound): ops_total_and_repair (operations never reaches its error branch on clean texts with equal non-whitespace content, returns one operation per character, and repair replays it to exactly `to`), repair_nonws, repair_keep, repair_err_iff, wsOps_length — about the cluster-level model of operations/repair; the model is compared with whitespace::operations / repair on every generated request (exact) and the property is evaluated directly on the implementation's outputs.",
        note="Model is cluster level: in grapheme mode the clusters come from the real CharString (unicode-segmentation trusted); F14 (a space splitting a grapheme cluster) is an open known finding. Correspondence is differential testing over the explored requests.",
    ),
    "C11": dict(
        anchors=[("src/text.rs", r"pub fn clean\("), ("src/text.rs", r"pub fn word_boundaries\("), ("src/whitespace.rs", r"pub fn remove\("), ("src/whitespace.rs", r"pub fn full\(")],
        rule="strings with dense whitespace structure over all 25 White_Space code points, CRLF, zero-width non-spaces, combining marks, ZWJ, 1-4 byte letters; both modes; thorough adds all strings of length <= 5 over a 7-symbol alphabet",
        exhaustive={"thorough": "all strings of length <= 5 over {a,b,space,tab,U+3000,U+0301,U+200B} x both modes x 4 functions"},
        trusted=UNICODE,
        min_nontrivial={"quick": 500, "thorough": 5000},
        claim="Theorems for every text: clean_Clean (normal form), clean_nonws(_stable), clean_idem, clean_of_Clean, clean_eq_join (= split on whitespace joined by single spaces), wordBoundaries_sep + wordBoundaries_cover (ranges are exactly the maximal non-whitespace runs, in order), remove_eq, full_eq/full_nonws — on the cluster-level model; exact correspondence with text::clean, word_boundaries, whitespace::remove/full on generated and (thorough) exhaustively enumerated strings; direct oracle against split_whitespace().",
        note="String-level re-segmentation in grapheme mode is outside the cluster-level theorems: F13 (clean not idempotent when the inserted space fuses with a lone Extend cluster) is an open known finding. isWsCp table is checked against char::is_whitespace by the harness.",
    ),
    "C12": dict(
        anchors=[("src/edit.rs", r"fn _calculate_edit_matrices\("), ("src/edit.rs", r"pub fn operations\("), ("src/edit.rs", r"pub fn distance\("), ("src/edit.rs", r"pub fn prefix_distance\(")],
        rule="pairs over {a,b,space,a-umlaut} (+ combining marks, multi-byte letters), second string random or a 0-3 edit mutation of the first (insert/delete/replace/transpose) so that keeps and transpositions are dense; all 16 flag combinations; distance, prefix_distance, operations; thorough adds all pairs of strings of length <= 4 over {a,b,space} x all flags",
        exhaustive={"thorough": "all pairs of strings of length <= 4 over {a,b,space} (121 x 121) x with_swap x spaces_insert_delete_only x normalized, code-point mode"},
        trusted=UNICODE + ["f64 division is compared with the model's exact rational with relative tolerance 1e-12"],
        min_nontrivial={"quick": 500, "thorough": 5000},
        claim="Theorems for all pairs of texts and all flag combinations: matrix_eq_rec (every cell of the flat matrix, filled with the code's candidate order and first-minimum tie-breaking, equals the recursive reference recurrence osaR), distance_le_script + distance_attained (the value is the minimum cost over all edit scripts: Levenshtein without swaps, optimal string alignment with, whitespace never substituted/transposed under spaces_insert_delete_only), distance_eq_zero_iff, normalized_range (<= longer length without sid; two empty strings give 0), normalized_range_sid_partial + sid_counterexample (F12), prefix_min. editOperations_ok (operations(): the backtrace never reaches its panic branch, the script has exactly `distance` operations, is sorted by position and applying it to a yields b), editOperations_minimal (no alignment script is shorter), editOperations_flags (no whitespace substituted / transposed under spaces_insert_delete_only, no swap without with_swap). The script itself is also compared exactly with the implementation (tie-breaking modelled).",
        note="Grapheme clusters come from the real CharString. f64 division compared against the exact rational with tolerance. F12 is an open known finding; D1 (NaN for two empty strings) was repaired by a fix: commit.",
    ),
    "C15": dict(
        anchors=[("src/corrupt.rs", r"pub fn edit_word<"), ("src/corrupt.rs", r"impl<'s> GetEdits<'s> for InsertEdits<'s>"), ("src/corrupt.rs", r"impl<'s> GetEdits<'s> for ReplaceEdits<'s>"), ("src/corrupt.rs", r"impl<F> CanEdit for DeleteEdits<F>"), ("src/corrupt.rs", r"impl<F> CanEdit for SwapEdits<F>")],
        rule="words of 0-5 characters over {a,b,z,a-umlaut,c} (z is the character the harness' can_delete / can_swap predicates refuse) x all 16 subsets of {insert, delete, replace, swap} x random exclusion sets x dense random context tables for the REAL InsertEdits / ReplaceEdits providers (contexts incl. <bow>/<eow>, edit strings incl. the empty string, multi-character and multi-byte strings) x full_delete on/off x seeds x both grapheme modes; chains of 1-4 edits re-using the returned exclusion set; the observed (word', exclusions') of edit_word must be one of the model's outcomes",
        trusted=["ChaCha8 / rand (random_range, WeightedIndex): the three draws are choices; the model lists every outcome", "the harness' can_delete / can_swap predicates are re-stated in the model (character z is frozen)"] + UNICODE,
        claim="Model of edit_word with the four edit kinds, the candidate filters, the re-indexing of the exclusion set and the context lookups of InsertEdits / ReplaceEdits (as repaired); relational correspondence: every observed result must be a listed outcome. Oracle: no panic, exclusion set inside the new word, protected characters preserved at their re-mapped positions. Theorems (outcomes_unchanged_or_one, outcomes_excl_bound, outcomes_protected, editWord_mem_outcomes / outcomes_complete, chain_excl_bound) are being proved against this model; those present in Props/C15.lean are audited on every run.",
        note="D6 (idx - 1 underflow at the word start in the context providers) was found by this check (panic under overflow checks) and repaired by a fix: commit. In grapheme mode an inserted string can fuse with a neighbouring character on re-segmentation (the oracle would report it as F16); the generator's alphabet contains no combining marks, so this class is not explored.",
        min_nontrivial={"quick": 500, "thorough": 5000},
    ),
    "C16": dict(
        anchors=[("src/windows.rs", r"pub fn windows<"), ("src/windows.rs", r"pub fn char\("), ("src/windows.rs", r"pub fn byte\("), ("src/windows.rs", r"fn count_until\("), ("src/unicode.rs", r"pub\(crate\) fn char_range_to_byte_range\(")],
        rule="vectors of cluster byte lengths (1-4 byte characters, 5-9 byte grapheme clusters realised as base + combining marks) of length 0-30 x max 0-12 x context 0-5 (invalid max <= 2*ctx and too-wide characters included) x char/byte/full; thorough adds all length vectors of length <= 6 over {1,2,3,4} x 11 (max,ctx) pairs",
        exhaustive={"thorough": "all cluster-length vectors of length <= 6 over {1,2,3,4} (5461) x 11 (max, ctx) pairs x {char, byte} + full"},
        trusted=["CharString (cluster byte lengths) is supplied by the real code; the model works on the byte-length vector"],
        min_nontrivial={"quick": 500, "thorough": 5000},
        claim="Theorems for every non-empty cluster-length vector and every configuration: char_windows_ok (valid config => windows tile [0,n): first starts at 0, each starts where the previous ended, none empty, last ends at n; contexts contain their windows, lie in the text and span <= max characters), byte_windows_ok (valid config => either the too-wide error value or a tiling with contexts <= max bytes; no other outcome), byte_windows_fit (every character <= max-2*ctx bytes => success), invalid_cfg_err (max <= 2*ctx => error value for both kinds), tiles_bytes (byte ranges of a tiling chain from 0 to the total byte length, i.e. concatenate to the text), full_window_ok; termination is by well-founded recursion (no fuel), the no-progress branch of the char loop is proved unreachable (charLoop_ok). Exact correspondence incl. error kind through windows::windows; oracle checks tiling, limits, byte/char agreement and the reported context string on the implementation.",
        note="The model works on the cluster byte-length vector (CharString trusted for segmentation); byte boundaries are prefix sums in the model and compared with the implementation's run-length based conversion on every request.",
    ),
    "C18": dict(
        anchors=[("src/text.rs", r"pub fn match_words_with\("), ("src/edit.rs", r"pub fn edited_words\(")],
        rule="texts of 0-12 words over small vocabularies (repeats, case variants incl. final-sigma / dotted-I / sharp-s words), every ASCII whitespace separator, leading/trailing separators; ignore_case on/off; thorough adds all pairs of word sequences of length <= 4 over 4 words",
        exhaustive={"thorough": "all pairs of word sequences of length <= 4 over {a,b,A,c} (341 x 341) x ignore_case, plus edited_words"},
        trusted=["str::to_lowercase (the lowercase keys are computed by the real code and sent with the request)", "word splitting by ASCII whitespace is modelled (splitAsciiWs) and compared"],
        min_nontrivial={"quick": 500, "thorough": 5000},
        claim="Theorems for all pairs of word sequences: matchWords_ok (the DP with Rust's last-maximum tie-breaking and its backtrace never reach the panic branch; the pairs are strictly increasing in both coordinates, matched words are equal, and their number equals the LCS recurrence), lcs_upper + lcs_attained (the recurrence is the length of a longest common subsequence: upper bound for every common subsequence, attained by one), edited_eq_complement, splitAsciiWs_words. Exact correspondence on the pair list itself (tie-breaking modelled), counts, and edited_words; independent LCS oracle in the harness.",
        note="Case-insensitive comparison uses lowercase keys supplied by the real str::to_lowercase; 'whitespace-separated' is read as ASCII whitespace (split_ascii_whitespace), which is what the function documents and what its callers (cleaned text) need.",
    ),
    "C13": dict(
        anchors=[("src/metrics.rs", r"fn _f1\("), ("src/metrics.rs", r"fn _group_words\("), ("src/metrics.rs", r"fn _spelling_correction_tp_fp_fn\("), ("src/metrics.rs", r"fn _whitespace_correction_tp_fp_fn\("), ("src/metrics.rs", r"fn _correction_f1\("), ("src/metrics.rs", r"fn _mean_edit_distance\("), ("src/metrics.rs", r"pub fn accuracy<"), ("src/metrics.rs", r"impl TpFpFn \{")],
        rule="triples (input, prediction, target) of word sequences over a small vocabulary incl. case variants, multi-byte and combining characters: the input is a 0-2 step perturbation of the target (misspell / merge / split / delete / add a word), the prediction is the target, the input, empty, or a further perturbation; lists of 0-3 triples; a stream with characters whose NFKC form contains a space; beta in {0, 1/2, 1, 2}; micro and sequence averaging; three whitespace modes on triples sharing one non-whitespace skeleton (plus non-equivalent ones for the error branch); both grapheme modes; boolean vectors for binary F1 / accuracy incl. length mismatches; every call under catch_unwind. Requests carry the raw strings (given to the metric functions) and the prepared texts clean(NFKC(clean(raw))) the model works on",
        trusted=UNICODE + ["unicode-normalization (NFKC) and text::clean are applied by the real code in the harness; the model receives the prepared texts", "f64 arithmetic is compared with the model's exact rationals with relative tolerance 1e-12"],
        claim="Model of _f1, micro / sequence averaging, accuracy, binary F1, mean (normalised) edit distance, the whitespace-correction counts and the spelling-correction counts (_group_words as repaired, _spelling_correction_tp_fp_fn), composed from the C10/C11/C12/C18 models; all values as exact rationals, compared with the f64 results of the real functions on every request. Oracle: no panic, finite, in [0,1], prediction == target => precision = recall = F (no false positives / negatives), unchanged prediction => zero true positives, formulas of accuracy / binary F1. Theorems (f1_range, micro/seqavg range, whitespace-count calibration, ...) are being proved against this model; those present in Props/C13.lean are audited on every run.",
        note="D8 (panic when input or prediction is empty) and D12 (panic on characters whose NFKC form contains a space) were found by this check and repaired by fix: commits. Totality of _group_words on clean texts (no assertion failure) is decided by correspondence + the no-panic oracle, not by a theorem.",
        min_nontrivial={"quick": 500, "thorough": 5000},
    ),
    "C14": dict(
        anchors=[("src/data/preprocessing.rs", r"fn corrupt_whitespace\("), ("src/whitespace.rs", r"pub fn operations\("), ("src/whitespace.rs", r"pub fn repair\(")],
        rule="clean texts (multi-byte, marks) x probabilities {0,.1,.3,.5,.9,1} x seeds; the decision stream is reproduced from ChaCha8Rng::seed_from_u64(seed) by the harness",
        trusted=UNICODE + ["ChaCha8 seeding and f64 sampling (rand, rand_chacha): the per-character threshold outcomes are reproduced by the harness with the same crates"],
        min_nontrivial={"quick": 500, "thorough": 5000},
        claim="Theorems for every clean text and every decision stream (hence all probabilities and seeds): cw_nonws, cw_Clean, cw_recover (operations gives one label per character and repair recovers the text; via C10), cw_no_delete / cw_no_insert (subsequence statements). Exact correspondence through preprocessing(WhitespaceCorruption) with the ChaCha8 decision stream reproduced by the harness; determinism checked by running twice.",
        note="seed -> decision stream (ChaCha8, rand) is trusted and reproduced with the same crates; F15 (grapheme re-segmentation after inserting a space before a lone Extend cluster) is an open known finding.",
    ),
}
