//! Seeded structured generators shared by the text properties.
use rand::Rng;
use rand::seq::IndexedRandom;
use rand_chacha::ChaCha8Rng;

/// every Unicode White_Space code point
pub const WS: &[u32] = &[
    9, 10, 11, 12, 13, 32, 0x85, 0xA0, 0x1680, 0x2000, 0x2001, 0x2002, 0x2003, 0x2004, 0x2005, 0x2006,
    0x2007, 0x2008, 0x2009, 0x200A, 0x2028, 0x2029, 0x202F, 0x205F, 0x3000,
];
/// zero-width / space-like code points that are NOT White_Space
pub const NON_WS_SPACELIKE: &[u32] = &[0x200B, 0x200C, 0x200D, 0x2060, 0xFEFF, 0x180E, 0x1C, 0x1F, 0x0, 0x7F];
/// combining marks / extenders
pub const MARKS: &[u32] = &[0x301, 0x308, 0x20DD, 0xFE0F, 0x1F3FB];
/// letters of 1–4 UTF-8 bytes
pub const LETTERS: &[u32] = &['a' as u32, 'b' as u32, 'c' as u32, 'B' as u32, 0xE4, 0xDF, 0x4E2D, 0x1F600, 0x1F468, 0x1F469, 0x1F1E9, 0x1F1EA, 0x1100, 0x1161];

/// seeds: special values (0 = the "default" a caller may treat as "unset", 1, powers of two, u64::MAX) are as
/// likely as ordinary ones
pub fn seed(rng: &mut ChaCha8Rng) -> u64 {
    match rng.random_range(0..10) {
        0 => 0,
        1 => [1u64, 2, u64::MAX, 1 << 32, 1 << 63, u32::MAX as u64][rng.random_range(0..6)],
        2 => rng.random(),
        _ => rng.random_range(0..1000),
    }
}

pub fn pick(rng: &mut ChaCha8Rng, l: &[u32]) -> char {
    char::from_u32(*l.choose(rng).unwrap()).unwrap()
}

/// string with dense whitespace structure: the interesting branches of clean / word boundaries /
/// operations fire often (leading / trailing / consecutive / exotic whitespace, CRLF, marks, ZWJ)
pub fn ws_text(rng: &mut ChaCha8Rng, max_len: usize, exotic: bool) -> String {
    let n = rng.random_range(0..=max_len);
    let mut s = String::new();
    if exotic && rng.random_range(0..8) == 0 {
        // pure ASCII, but with CR LF (one grapheme cluster of two bytes) and the ASCII white space characters:
        // the inputs on which an "ASCII fast path" differs from the segmentation
        for _ in 0..n {
            match rng.random_range(0..10) {
                0 | 1 => s.push(' '),
                2 => s.push_str("\r\n"),
                3 => s.push(['\t', '\n', '\r', '\u{b}', '\u{c}'][rng.random_range(0..5)]),
                _ => s.push(pick(rng, &LETTERS[..4])),
            }
        }
        return s;
    }
    for _ in 0..n {
        let r = rng.random_range(0..100);
        if r < 30 {
            s.push(' ');
        } else if r < 38 && exotic {
            s.push(pick(rng, WS));
        } else if r < 41 && exotic {
            s.push_str("\r\n");
        } else if r < 45 && exotic {
            s.push(pick(rng, NON_WS_SPACELIKE));
        } else if r < 50 && exotic {
            s.push(pick(rng, MARKS));
        } else if r < 53 && exotic {
            s.push('\u{200D}');
            s.push(pick(rng, LETTERS));
            if rng.random_range(0..40) == 0 {
                // a grapheme cluster of more than 255 bytes ("zalgo" text): base letter + 130 combining marks
                s.push('e');
                for _ in 0..130 {
                    s.push('\u{301}');
                }
            }
        } else if r < 80 {
            s.push(pick(rng, &LETTERS[..4]));
        } else {
            s.push(pick(rng, LETTERS));
        }
    }
    s
}

/// a whitespace-clean text (single spaces between non-empty words)
pub fn clean_text(rng: &mut ChaCha8Rng, max_words: usize, exotic: bool) -> String {
    let w = rng.random_range(0..=max_words);
    let mut words = vec![];
    for _ in 0..w {
        let n = rng.random_range(1..=4);
        let mut s = String::new();
        for _ in 0..n {
            let r = rng.random_range(0..100);
            if r < 70 || !exotic {
                s.push(pick(rng, &LETTERS[..5]));
            } else if r < 85 {
                s.push(pick(rng, LETTERS));
            } else if r < 92 {
                s.push(pick(rng, NON_WS_SPACELIKE));
            } else {
                s.push(pick(rng, LETTERS));
                s.push(pick(rng, MARKS));
                if rng.random_range(0..60) == 0 {
                    // a grapheme cluster of more than 255 bytes
                    for _ in 0..130 {
                        s.push('\u{301}');
                    }
                }
            }
        }
        words.push(s);
    }
    words.join(" ")
}

/// all strings of length ≤ k over `alphabet` (small-scope exhaustive enumeration)
pub fn all_strings(alphabet: &[char], k: usize) -> Vec<String> {
    let mut out = vec![String::new()];
    let mut frontier = vec![String::new()];
    for _ in 0..k {
        let mut next = vec![];
        for s in &frontier {
            for &c in alphabet {
                let mut t = s.clone();
                t.push(c);
                next.push(t);
            }
        }
        out.extend(next.iter().cloned());
        frontier = next;
    }
    out
}

pub fn is_clean_str(s: &str) -> bool {
    // no leading/trailing/consecutive whitespace and only ' ' as whitespace
    let cs: Vec<char> = s.chars().collect();
    for (i, c) in cs.iter().enumerate() {
        if c.is_whitespace() {
            if *c != ' ' || i == 0 || i + 1 == cs.len() || cs[i - 1].is_whitespace() {
                return false;
            }
        }
    }
    true
}

pub fn remove_ws(s: &str) -> String {
    s.chars().filter(|c| !c.is_whitespace()).collect()
}
