//! tu-harness: runs the real text-utils crate on generated requests (DESIGN.md §2, §3).
//!   tu-harness run <property> <quick|thorough> <seed> <outdir> [scale]
//!   tu-harness replay <property> <request line>
mod ctx;
mod gen;
mod props;
mod sched;
mod wire;

use ctx::{Ctx, Exec};

fn exec_for(prop: &str) -> Exec {
    match prop {
        "C10" | "C11" | "C14" => props::text::exec,
        "C12" => props::edit::exec,
        "C18" => props::matchw::exec,
        "C16" => props::windows::exec,
        "C06" => props::batch::exec,
        "C07" => props::multigen::exec,
        "C13" => props::metrics::exec,
        "C15" => props::corrupt::exec,
        "C20" => props::dict::exec,
        "C19" => props::bpetrain::exec,
        "C17" => props::groups::exec,
        "C08" => props::loader::exec,
        "C05" | "C09" => props::pipe::exec,
        "C01" | "C02" | "C03" | "C04" => props::tok::exec,
        _ => panic!("unknown property {prop}"),
    }
}

fn main() {
    let args: Vec<String> = std::env::args().collect();
    match args.get(1).map(|s| s.as_str()) {
        Some("run") => {
            let prop = args[2].as_str();
            let thorough = args[3] == "thorough";
            let seed: u64 = args[4].parse().expect("seed");
            let dir = args[5].as_str();
            let scale: u64 = args.get(6).map(|s| s.parse().unwrap()).unwrap_or(1);
            let shard: u64 = args.get(7).map(|s| s.parse().unwrap()).unwrap_or(0);
            let nshards: u64 = args.get(8).map(|s| s.parse().unwrap()).unwrap_or(1);
            ctx::quiet_panics();
            std::env::set_var("TU_HARNESS_TMP", dir);
            props::tok::set_tmp(dir);
            let mut c = Ctx::new(dir, seed, thorough, scale, shard, nshards, exec_for(prop));
            // where the property pins the answer as a function of the request (or demands determinism in the seed), an
            // earlier request is executed again every 25 requests and must get the same answer; not where the property
            // leaves a choice open (scripts, matchings, window lengths, ties) or where requests observe timing
            c.again_every = if ["C01", "C02", "C03", "C04", "C06", "C08", "C10", "C11", "C13", "C14", "C17"].contains(&prop) { 25 } else { 0 };
            // a panic of the implementation while the GENERATOR is driving it (outside a recorded request) must not be
            // lost: it is recorded and reported by the orchestrator (exit code 4)
            let res = std::panic::catch_unwind(std::panic::AssertUnwindSafe(|| match prop {
                "C10" => props::text::run_c10(&mut c),
                "C11" => props::text::run_c11(&mut c),
                "C14" => props::text::run_c14(&mut c),
                "C12" => props::edit::run_c12(&mut c),
                "C18" => props::matchw::run_c18(&mut c),
                "C16" => props::windows::run_c16(&mut c),
                "C06" => props::batch::run_c06(&mut c),
                "C07" => props::multigen::run_c07(&mut c),
                "C13" => props::metrics::run_c13(&mut c),
                "C15" => props::corrupt::run_c15(&mut c),
                "C20" => props::dict::run_c20(&mut c),
                "C19" => props::bpetrain::run_c19(&mut c),
                "C17" => props::groups::run_c17(&mut c),
                "C08" => props::loader::run_c08(&mut c),
                "C05" => props::pipe::run_c05(&mut c),
                "C09" => props::pipe::run_c09(&mut c),
                "C01" => props::tok::run_c01(&mut c),
                "C02" => props::tok::run_bpe(&mut c, false),
                "C03" => props::tok::run_bpe(&mut c, true),
                "C04" => props::tok::run_c04(&mut c),
                _ => unreachable!(),
            }));
            if let Err(p) = res {
                let msg = p.downcast_ref::<String>().cloned().or_else(|| p.downcast_ref::<&str>().map(|s| s.to_string())).unwrap_or_default();
                let msg: String = msg.chars().take(300).map(|c| if c == '\n' { ' ' } else { c }).collect();
                std::fs::write(format!("{dir}/genpanic.txt"), format!("{msg}\n")).ok();
                c.finish(dir);
                std::process::exit(4);
            }
            c.finish(dir);
        }
        Some("panic-child") => {
            props::pipe::panic_child(args[2].parse().unwrap(), args[3].parse().unwrap(), args[4].parse().unwrap());
        }
        Some("panic-child-locked") => {
            props::pipe::panic_child_locked(args[2].parse().unwrap(), args[3].parse().unwrap(), args[4].parse().unwrap());
        }
        Some("panic-child-later") => {
            props::pipe::panic_child_later(args[2].parse().unwrap(), args[3].parse().unwrap(), args[4].parse().unwrap());
        }
        Some("panic-child-handover") => {
            props::pipe::panic_child_handover(args[2].parse().unwrap(), args[3].parse().unwrap(), args[4].parse().unwrap());
        }
        Some("cpu-child") => {
            props::pipe::cpu_child(args[2].parse().unwrap(), args[3].parse().unwrap());
        }
        Some("many-child") => {
            props::pipe::many_child(args[2].parse().unwrap(), args[3].parse().unwrap(), args[4].parse().unwrap());
        }
        Some("deep-child") => {
            props::pipe::deep_child(args[2].parse().unwrap(), args[3].parse().unwrap(), args[4].parse().unwrap());
        }
        Some("replay") => {
            let prop = args[2].as_str();
            let line = args[3..].join(" ");
            let mut it = line.split_whitespace();
            let op = it.next().expect("op");
            let a: Vec<u64> = it.map(|x| x.parse().expect("number")).collect();
            ctx::quiet_panics();
            let res = std::panic::catch_unwind(|| exec_for(prop)(op, &a));
            match res {
                Ok(Ok(o)) => {
                    println!("impl: {}", o.out);
                    println!("oracle: {}", o.oracle.map(|c| format!("fail {c}")).unwrap_or("ok".into()));
                }
                Ok(Err(e)) => println!("impl: bad-request {e}\noracle: ok"),
                Err(_) => println!("impl: panic\noracle: fail panic"),
            }
        }
        _ => {
            eprintln!("usage: tu-harness run <prop> <tier> <seed> <dir> [scale] | replay <prop> <request>");
            std::process::exit(2);
        }
    }
}
