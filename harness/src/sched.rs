//! Schedule controller for the hooked `Pipe` (DESIGN §6 C05): exactly one participant runs between
//! two schedule points; the scheduler (the harness thread) decides who.
use std::collections::{BTreeMap, BTreeSet};
use std::sync::{Arc, Condvar, Mutex};
use std::time::{Duration, Instant};

#[derive(Clone, Debug, PartialEq)]
pub struct Park {
    pub label: &'static str,
    pub idx: usize,
    pub flag: bool,
}

#[derive(Default)]
struct Inner {
    parked: BTreeMap<usize, Park>,
    granted: Option<usize>,
    exited: BTreeSet<usize>,
    /// events of components that are only observed, never blocked ("buffered")
    pub observed: Vec<(&'static str, &'static str)>,
}

pub struct Sched {
    inner: Mutex<Inner>,
    cv: Condvar,
    timeout: Duration,
}

#[derive(Debug)]
pub struct Diverged(pub String);

impl Sched {
    pub fn new() -> Arc<Self> {
        Arc::new(Sched { inner: Mutex::new(Inner::default()), cv: Condvar::new(), timeout: Duration::from_secs(180) })
    }

    /// install this scheduler as the controller of the crate's schedule points
    pub fn install(self: &Arc<Self>) {
        let me = self.clone();
        text_utils::verif::install(Some(Arc::new(move |comp, w, label, idx, flag| me.at_point(comp, w, label, idx, flag))));
    }

    pub fn uninstall() {
        text_utils::verif::install(None);
    }

    fn at_point(&self, comp: &'static str, w: usize, label: &'static str, idx: usize, flag: bool) {
        let mut g = self.inner.lock().unwrap();
        if comp != "pipe" {
            if g.observed.len() < 10000 || label == "exit" {
                g.observed.push((comp, label));
            }
            self.cv.notify_all();
            return;
        }
        if label == "exit" {
            g.exited.insert(w);
            g.parked.remove(&w);
            self.cv.notify_all();
            return;
        }
        g.parked.insert(w, Park { label, idx, flag });
        self.cv.notify_all();
        while g.granted != Some(w) {
            g = self.cv.wait(g).unwrap();
        }
        g.granted = None;
        g.parked.remove(&w);
        self.cv.notify_all();
    }

    /// wait until each of the `n` workers is parked or has exited
    pub fn wait_quiescent(&self, n: usize) -> Result<(), Diverged> {
        let start = Instant::now();
        let mut g = self.inner.lock().unwrap();
        loop {
            if g.granted.is_none() && (0..n).all(|w| g.parked.contains_key(&w) || g.exited.contains(&w)) {
                return Ok(());
            }
            if start.elapsed() > self.timeout {
                return Err(Diverged(format!("workers did not reach a schedule point: parked {:?} exited {:?}", g.parked, g.exited)));
            }
            g = self.cv.wait_timeout(g, Duration::from_millis(50)).unwrap().0;
        }
    }

    pub fn park_of(&self, w: usize) -> Option<Park> {
        self.inner.lock().unwrap().parked.get(&w).cloned()
    }

    pub fn has_exited(&self, w: usize) -> bool {
        self.inner.lock().unwrap().exited.contains(&w)
    }

    pub fn observed(&self) -> Vec<(&'static str, &'static str)> {
        self.inner.lock().unwrap().observed.clone()
    }

    /// let worker `w` run from its current park to its next schedule point (or exit)
    pub fn grant(&self, w: usize, n: usize) -> Result<Option<Park>, Diverged> {
        {
            let mut g = self.inner.lock().unwrap();
            if !g.parked.contains_key(&w) {
                return Err(Diverged(format!("worker {w} is not parked")));
            }
            g.granted = Some(w);
            self.cv.notify_all();
        }
        // wait until w left its park and arrived at the next one / exited
        let start = Instant::now();
        let mut g = self.inner.lock().unwrap();
        loop {
            if g.granted.is_none() && (g.parked.contains_key(&w) || g.exited.contains(&w)) {
                break;
            }
            if start.elapsed() > self.timeout {
                return Err(Diverged(format!("worker {w} did not reach its next schedule point (blocked?)")));
            }
            g = self.cv.wait_timeout(g, Duration::from_millis(50)).unwrap().0;
        }
        let _ = n;
        Ok(g.parked.get(&w).cloned())
    }
}
