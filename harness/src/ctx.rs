//! Case sink: writes request / implementation answer / oracle verdict, one line each.
use rand::SeedableRng;
use rand_chacha::ChaCha8Rng;
use std::collections::BTreeMap;
use std::fs::File;
use std::io::{BufWriter, Write};
use std::panic::{catch_unwind, AssertUnwindSafe};
use std::sync::atomic::{AtomicU64, Ordering};
use std::sync::{Arc, Mutex};
use std::time::{Duration, Instant};

pub struct Outcome {
    pub out: String,
    /// None = property oracle holds (or does not apply); Some(clause) = fails
    pub oracle: Option<String>,
    /// false: the property does not pin this answer as a function of the request (e.g. it depends on a hash order
    /// the property leaves open), so it is not compared when the request is executed again
    pub pinned: bool,
}

impl Outcome {
    pub fn new(out: String) -> Self {
        Outcome { out, oracle: None, pinned: true }
    }
    pub fn check(&mut self, cond: bool, clause: &str) {
        if !cond && self.oracle.is_none() {
            self.oracle = Some(clause.to_string());
        }
    }
}

pub type Exec = fn(&str, &[u64]) -> Result<Outcome, String>;

pub struct Ctx {
    pub rng: ChaCha8Rng,
    pub seed: u64,
    pub thorough: bool,
    /// volume multiplier (raised by ./check when an anchored function changed)
    pub scale: u64,
    pub shard: u64,
    pub nshards: u64,
    cases: BufWriter<File>,
    imp: BufWriter<File>,
    oracle: BufWriter<File>,
    /// the request that is being executed right now (read by the orchestrator if the process dies)
    pending: File,
    dir: String,
    pub n: u64,
    pub stats: BTreeMap<String, u64>,
    exec: Exec,
    current: Arc<Mutex<Option<(Instant, String)>>>,
    pub case_timeout: Duration,
    timeout_ms: Arc<AtomicU64>,
    /// every `again_every`-th request an earlier request of this run is executed again (0 = never): the functions
    /// under test are pure, so the answer must not depend on what was computed in between
    pub again_every: u64,
    past: Vec<(String, Vec<u64>, String)>,
    again_state: u64,
}

static CASE_NO: AtomicU64 = AtomicU64::new(0);
/// set by a property module that has established that the implementation is blocked (e.g. a worker thread never
/// reaches its next schedule point): the watchdog then records the current case as a hang at once
pub static FORCE_HANG: std::sync::atomic::AtomicBool = std::sync::atomic::AtomicBool::new(false);

/// the current case is blocked for good: hand over to the watchdog (the process exits with code 3)
pub fn blocked() -> ! {
    FORCE_HANG.store(true, Ordering::SeqCst);
    loop {
        std::thread::sleep(Duration::from_secs(1));
    }
}

impl Ctx {
    pub fn new(dir: &str, seed: u64, thorough: bool, scale: u64, shard: u64, nshards: u64, exec: Exec) -> Self {
        let f = |n: &str| BufWriter::new(File::create(format!("{dir}/{n}")).expect("create output"));
        let current: Arc<Mutex<Option<(Instant, String)>>> = Arc::new(Mutex::new(None));
        let ctx = Ctx {
            rng: ChaCha8Rng::seed_from_u64(seed.wrapping_add(shard.wrapping_mul(0x9E37_79B9_7F4A_7C15))),
            seed,
            thorough,
            scale,
            shard,
            nshards,
            pending: File::create(format!("{dir}/pending.txt")).expect("create output"),
            dir: dir.to_string(),
            cases: f("cases.txt"),
            imp: f("impl.txt"),
            oracle: f("oracle.txt"),
            n: 0,
            stats: BTreeMap::new(),
            exec,
            current: current.clone(),
            case_timeout: Duration::from_secs(20),
            timeout_ms: Arc::new(AtomicU64::new(20_000)),
            again_every: 0,
            past: vec![],
            again_state: seed ^ 0x5DEE_CE66_D1CE_4E5B,
        };
        // watchdog: a case that does not return is recorded as a hang; the process then stops
        // (exit code 3) — the orchestrator treats the hang as the verdict of that case.
        let dir = dir.to_string();
        let timeout_ms = ctx.timeout_ms.clone();
        std::thread::spawn(move || loop {
            std::thread::sleep(Duration::from_millis(200));
            let cur = current.lock().unwrap().clone();
            if let Some((start, line)) = cur {
                if FORCE_HANG.load(Ordering::SeqCst) || start.elapsed() > Duration::from_millis(timeout_ms.load(Ordering::SeqCst)) {
                    let mut f = File::create(format!("{dir}/hang.txt")).unwrap();
                    writeln!(f, "{}", line).ok();
                    writeln!(f, "{}", CASE_NO.load(Ordering::SeqCst)).ok();
                    std::process::exit(3);
                }
            }
        });
        ctx
    }

    /// exhaustive enumerations and the corpus run in the first shard only
    pub fn first_shard(&self) -> bool {
        self.shard == 0
    }

    pub fn count(&mut self, key: &str) {
        *self.stats.entry(key.to_string()).or_insert(0) += 1;
    }

    pub fn budget(&self, quick: u64, thorough: u64) -> u64 {
        let total = if self.thorough { thorough } else { quick * self.scale };
        (total / self.nshards).max(1)
    }

    /// run one request against the implementation and record it
    /// generator-side work that drives the real code (schedule exploration): while it runs, `line` is the
    /// request the watchdog records if the implementation blocks
    pub fn guard(&self, line: String) {
        std::fs::write(self.pending_path(), &line).ok();
        self.timeout_ms.store(self.case_timeout.as_millis() as u64, Ordering::SeqCst);
        *self.current.lock().unwrap() = Some((Instant::now(), line));
    }

    fn pending_path(&self) -> String {
        format!("{}/pending.txt", self.dir)
    }

    pub fn unguard(&self) {
        *self.current.lock().unwrap() = None;
    }

    pub fn case(&mut self, op: &str, args: &[u64]) {
        let (out, pinned) = self.case_checked(op, args, None);
        if self.again_every == 0 {
            return;
        }
        // reservoir of earlier requests (small ones only) with the answers they got
        if args.len() <= 600 && pinned {
            self.again_state = self.again_state.wrapping_mul(6364136223846793005).wrapping_add(1442695040888963407);
            if self.past.len() < 48 {
                self.past.push((op.to_string(), args.to_vec(), out));
            } else if (self.again_state >> 33) % 8 == 0 {
                let k = ((self.again_state >> 40) % 48) as usize;
                self.past[k] = (op.to_string(), args.to_vec(), out);
            }
        }
        if self.n % self.again_every == self.again_every - 1 && !self.past.is_empty() {
            self.again_state = self.again_state.wrapping_mul(6364136223846793005).wrapping_add(1442695040888963407);
            let k = ((self.again_state >> 35) % self.past.len() as u64) as usize;
            let (op2, args2, out2) = self.past[k].clone();
            let exec = self.exec;
            let res = catch_unwind(AssertUnwindSafe(|| exec(&op2, &args2)));
            let same = match &res {
                Ok(Ok(o)) => o.out == out2,
                Ok(Err(e)) => format!("bad-request {e}") == out2,
                Err(_) => out2 == "panic",
            };
            self.count("executed-again");
            if !same {
                // recorded as a request of its own: the answer of this execution, judged against the earlier one
                self.case_checked(&op2, &args2, Some(out2));
            }
        }
    }

    /// `earlier`: the answer the same request got earlier in this run (must be reproduced)
    fn case_checked(&mut self, op: &str, args: &[u64], earlier: Option<String>) -> (String, bool) {
        let mut line = String::from(op);
        for a in args {
            line.push(' ');
            line.push_str(&a.to_string());
        }
        CASE_NO.store(self.n, Ordering::SeqCst);
        self.timeout_ms.store(self.case_timeout.as_millis() as u64, Ordering::SeqCst);
        // flush before running so that a hang / abort leaves consistent files
        self.cases.flush().ok();
        self.imp.flush().ok();
        self.oracle.flush().ok();
        {
            use std::io::{Seek, SeekFrom};
            self.pending.set_len(0).ok();
            self.pending.seek(SeekFrom::Start(0)).ok();
            self.pending.write_all(line.as_bytes()).ok();
        }
        // an enclosing generator guard (schedule exploration) is re-armed after the case
        let outer = self.current.lock().unwrap().take();
        *self.current.lock().unwrap() = Some((Instant::now(), line.clone()));
        let exec = self.exec;
        let res = catch_unwind(AssertUnwindSafe(|| exec(op, args)));
        *self.current.lock().unwrap() = outer.map(|(_, l)| (Instant::now(), l));
        let pinned = matches!(&res, Ok(Ok(o)) if o.pinned);
        let (out, orc) = match res {
            Ok(Ok(o)) => (o.out, o.oracle),
            Ok(Err(e)) => (format!("bad-request {e}"), None),
            Err(p) => {
                let msg = p
                    .downcast_ref::<String>()
                    .cloned()
                    .or_else(|| p.downcast_ref::<&str>().map(|s| s.to_string()))
                    .unwrap_or_default();
                let msg: String = msg.chars().take(120).map(|c| if c == '\n' { ' ' } else { c }).collect();
                ("panic".to_string(), Some(format!("panic: {msg}")))
            }
        };
        // one line per case in every file: no line breaks of any kind inside an answer or an oracle message
        let one_line = |t: String| -> String { t.chars().map(|c| if c.is_control() || c == '\u{2028}' || c == '\u{2029}' { ' ' } else { c }).collect() };
        let out = one_line(out);
        let orc = match earlier {
            Some(e) if one_line(e.clone()) != out => orc.or(Some("the same request was answered differently earlier in this run (the answer depends on what was computed in between)".to_string())),
            _ => orc,
        };
        let orc = orc.map(one_line);
        let kind = out.split(' ').take(if out.starts_with("err") { 2 } else { 1 }).collect::<Vec<_>>().join(" ");
        self.count(&format!("impl:{op}:{kind}"));
        writeln!(self.cases, "{line}").unwrap();
        writeln!(self.imp, "{out}").unwrap();
        match orc {
            None => writeln!(self.oracle, "ok").unwrap(),
            Some(c) => {
                self.count(&format!("oraclefail:{op}"));
                writeln!(self.oracle, "fail {c}").unwrap()
            }
        }
        self.n += 1;
        (out, pinned)
    }

    pub fn finish(mut self, dir: &str) {
        self.cases.flush().unwrap();
        self.imp.flush().unwrap();
        self.oracle.flush().unwrap();
        let mut m = serde_json::Map::new();
        m.insert("evaluations".into(), self.n.into());
        let st: serde_json::Map<String, serde_json::Value> =
            self.stats.iter().map(|(k, v)| (k.clone(), (*v).into())).collect();
        m.insert("stats".into(), st.into());
        std::fs::write(format!("{dir}/stats.json"), serde_json::to_string_pretty(&m).unwrap()).unwrap();
    }
}

pub fn quiet_panics() {
    std::panic::set_hook(Box::new(|_| {}));
}
