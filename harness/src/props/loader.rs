//! C08 — the train loader: selection (skip / limit / rank / world size / fast-forward), self-differential
//! over threads / buffers / ranks / restarts, batch sequences through the C06 model
use crate::ctx::{Ctx, Outcome};
use crate::wire::*;
use rand::Rng;
use std::collections::BTreeMap;
use std::sync::Arc;
use std::io::Write;
use text_utils::data::loading::{train_data_generator_from_jsonl, BatchLimitType, GenerationStrategy, ItemSize, MultiTrainDataGenerator};
use text_utils::data::postprocessing::PostprocessingFnConfig;
use text_utils::data::preprocessing::{Part, PreprocessingFnConfig, SpellingCorruptionMode};
use text_utils::data::task::TrainTaskConfig;
use text_utils::data::{PostprocessingConfig, PreprocessingConfig, TrainItem, TrainPipelineConfig, TrainTaskInput, VerifTrainLoader};
use text_utils::tokenization::{ByteGroups, ByteTokenizerConfig, GroupAggregation, SpecialConfig, TokenizeConfig, TokenizerConfig};

fn tmp() -> String {
    // inside the run directory of this shard (removed by ./check with it); replays fall back to /verif/work
    let d = match std::env::var("TU_HARNESS_TMP") {
        Ok(root) => format!("{root}/loader"),
        Err(_) => format!("/verif/work/loader-{}", std::process::id()),
    };
    std::fs::create_dir_all(&d).ok();
    d
}

#[derive(Clone, Debug, PartialEq)]
pub struct Cfg {
    pub lens: Vec<u64>,
    /// 0 = every line is valid; otherwise line i of file k is not JSON iff (7 * i + 3 * k) % bad == 0
    pub bad: u64,
    pub strategy: u64,
    pub seed: u64,
    pub epoch: u64,
    pub threads: u64,
    pub buffer: u64,
    pub sort: bool,
    pub shuffle: bool,
    pub prefetch: u64,
    pub batch_limit: u64,
    pub padded: bool,
    pub prep: u64,
    pub skip: u64,
    pub limit: Option<u64>,
    pub ff: u64,
    pub rank: u64,
    pub world: u64,
    /// order of the two independent setters before the iteration: false = set_epoch, set_fast_forward; true = the
    /// other way round
    pub ff_first: bool,
    /// the loader is created without a seed (legal when shuffle is off; it then behaves as with seed 0)
    pub seed_none: bool,
}

fn is_bad(bad: u64, k: u64, i: u64) -> bool {
    bad > 0 && (7 * i + 3 * k) % bad == 0
}

/// the identity word of line `i` of source `k`: it is repeated through the line, so that a substring preprocessing
/// keeps at least one whole copy, and it survives the removal of all white space
fn id_word(k: u64, i: u64) -> String {
    format!("w{k}x{i}w")
}

/// the first whole identity word in `s`
fn find_id(s: &str) -> Option<(u64, u64)> {
    let b = s.as_bytes();
    let mut p = 0;
    while p < b.len() {
        if b[p] == b'w' {
            let mut q = p + 1;
            let d1 = q;
            while q < b.len() && b[q].is_ascii_digit() {
                q += 1;
            }
            if q > d1 && q < b.len() && b[q] == b'x' {
                let d2 = q + 1;
                let mut e = d2;
                while e < b.len() && b[e].is_ascii_digit() {
                    e += 1;
                }
                if e > d2 && e < b.len() && b[e] == b'w' {
                    return Some((s[d1..q].parse().ok()?, s[d2..e].parse().ok()?));
                }
            }
        }
        p += 1;
    }
    None
}

/// does this pipeline need files whose lines carry a class label as their target?
fn cls_files(prep: u64) -> bool {
    prep == 14
}

fn files(lens: &[u64], bad: u64) -> Vec<String> {
    files_for(lens, bad, false)
}

fn files_for(lens: &[u64], bad: u64, cls: bool) -> Vec<String> {
    let dir = tmp();
    let mut v = vec![];
    for (k, &n) in lens.iter().enumerate() {
        let path = format!("{dir}/src-{k}-{n}-{bad}-{}.jsonl", cls as u8);
        if !std::path::Path::new(&path).exists() {
            let mut f = std::fs::File::create(&path).unwrap();
            for i in 0..n {
                if is_bad(bad, k as u64, i) {
                    // a line that does not parse: the loader drops it (with a warning) but it keeps its global index
                    let bad_line = ["this line is not json", "{\"text\": \"no input key\"}", "{\"input\": 5}", "[1, 2]", "{\"input\": \"x\", \"target\": 7}", "\"just a string\"", ""][((i + k as u64) % 7) as usize];
                    writeln!(f, "{bad_line}").unwrap();
                    continue;
                }
                // the first word carries the identity; the rest gives the corruptions something to work on
                let w = id_word(k as u64, i);
                // (punctuation attached to words: the realistic spelling corruption then replaces word PARTS)
                let text = format!("{w} the quick, {w} brown-fox {w} (jumps) over {w} a lazy dog. {w}");
                if cls {
                    writeln!(f, "{{\"input\": \"{text}\", \"target\": \"c{}\"}}", (i + k as u64) % 3).unwrap();
                } else {
                    writeln!(f, "{{\"input\": \"{text}\"}}").unwrap();
                }
            }
        }
        v.push(path);
    }
    v
}

/// character 3-gram file with tied frequencies (D10: the edit tables must not depend on HashMap order)
fn char_file() -> String {
    let p = format!("{}/chars.tsv", tmp());
    if !std::path::Path::new(&p).exists() {
        let mut f = std::fs::File::create(&p).unwrap();
        let letters = ["a", "e", "o", "u", "t", "h", "r", "q"];
        for a in ["<bow>", "t", "h", "o", "e", "a", "u", "r"] {
            for b in letters {
                for c in ["<eow>", "e", "h", "o", "u", "r", "t", "a"] {
                    // many ties: frequency depends on the middle letter's class only
                    let freq = if b == "a" || b == "e" { 50 } else { 20 };
                    writeln!(f, "{a} {b} {c}\t{freq}").unwrap();
                }
            }
        }
    }
    p
}

fn byte_tok() -> TokenizerConfig {
    TokenizerConfig {
        tokenize: TokenizeConfig::Byte(ByteTokenizerConfig { use_graphemes: true, pad_to_multiple_of: None, groups: ByteGroups::Bytes, aggregation: GroupAggregation::Mean }),
        special: SpecialConfig::default(),
    }
}

/// misspellings file of the realistic / mixed spelling corruption (whole words and word parts)
fn missp_file() -> String {
    let p = format!("{}/missp.json", tmp());
    if !std::path::Path::new(&p).exists() {
        std::fs::write(&p, r#"{"quick": ["quikc", "qick", "quik"], "the": ["teh", "hte"], "lazy": ["lasy", "lazzy"], "over": ["ovre"], "brown": ["brwon", "bronw"], "dog": ["dgo"], "jumps": ["jmups", "jumsp"], "fox": ["fxo"]}"#).unwrap();
    }
    p
}

/// number of pipeline configurations `pipeline` knows
pub const N_PREP: u64 = 17;

/// `max_length` of the loader (what `ClipLength` clips to)
fn max_len(prep: u64) -> usize {
    match prep {
        5 | 6 | 9 | 13 | 14 => 40,
        _ => 512,
    }
}

/// the pipeline configurations: between them every preprocessing function that draws from the item's random
/// stream (whitespace / spelling corruption in its three modes, switch, the two substring functions), the pure ones
/// (clean, normalise, overwrite, prefix, suffix, no / full white space, mark), all four tasks, and every
/// postprocessing function (token masking, clip, chain, switch, on-mark, switch-on-mark), global and per source
fn pipeline(prep: u64, nfiles: usize) -> TrainPipelineConfig {
    use PostprocessingFnConfig as Po;
    use PreprocessingFnConfig as Pr;
    let ws = Pr::WhitespaceCorruption(Part::Input, 0.3, 0.3, true);
    let spell = Pr::SpellingCorruption(Part::Input, 0.5, true, SpellingCorruptionMode::Artificial(0.3, 2.0, Some(char_file().into())));
    let real = Pr::SpellingCorruption(Part::Input, 0.6, false, SpellingCorruptionMode::Realistic(missp_file().into()));
    let mixed = Pr::SpellingCorruption(Part::Input, 0.7, true, SpellingCorruptionMode::Mixed(0.5, 0.3, 2.0, Some(char_file().into()), missp_file().into()));
    let mask = Po::TokenMasking(byte_tok(), 0.3, 1, 0.5, "<unk>".to_string());
    let wsc = TrainTaskConfig::WhitespaceCorrection(true, byte_tok());
    let gen = TrainTaskConfig::Generation(false, byte_tok(), true, None);
    let cond = TrainTaskConfig::ConditionalGeneration(byte_tok(), true, byte_tok(), false);
    let g = |p: Pr, task: TrainTaskConfig, post: Po| TrainPipelineConfig { preprocessing: PreprocessingConfig::Global(p), task, postprocessing: PostprocessingConfig::Global(post) };
    match prep {
        0 => g(Pr::None, wsc, Po::None),
        1 => g(ws, wsc, Po::None),
        2 => g(Pr::Switch(vec![Pr::None, ws], vec![0.5, 0.5]), wsc, Po::None),
        3 => g(spell, gen, Po::None),
        4 => g(Pr::Chain(vec![spell, ws]), gen, Po::None),
        5 => g(
            Pr::Chain(vec![Pr::Clean(Part::Input, true), Pr::Normalize(Part::Input, text_utils::unicode::Normalization::NFKC, true), Pr::Prefix(Part::Input, "p: ".into()), Pr::Suffix(Part::Target, " s".into())]),
            cond,
            Po::ClipLength,
        ),
        6 => g(Pr::Chain(vec![ws, Pr::CharSubstring(50, true)]), wsc, Po::ClipLength),
        7 => g(Pr::Chain(vec![ws, Pr::ByteSubstring(60, false)]), TrainTaskConfig::WhitespaceCorrection(false, byte_tok()), Po::None),
        8 => g(Pr::Switch(vec![Pr::NoWhitespaces(Part::Input, true), Pr::FullWhitespaces(Part::Input, true), ws, Pr::None], vec![0.25, 0.25, 0.25, 0.25]), wsc, Po::None),
        9 => g(
            Pr::Chain(vec![Pr::Switch(vec![Pr::Mark("m".into(), "a".into()), Pr::Mark("m".into(), "b".into())], vec![0.5, 0.5]), ws]),
            TrainTaskConfig::Generation(true, byte_tok(), true, Some(" => ".into())),
            Po::Chain(vec![Po::SwitchOnMark("m".into(), vec!["a".into(), "b".into()], vec![Po::None, mask.clone()]), Po::OnMark("m".into(), "a".into(), vec![Po::ClipLength])]),
        ),
        10 => g(real, gen, Po::None),
        11 => g(mixed, cond, Po::Switch(vec![Po::None, mask.clone()], vec![0.5, 0.5])),
        12 => g(Pr::Chain(vec![ws, Pr::Overwrite(Part::Input)]), gen, mask),
        13 => TrainPipelineConfig {
            preprocessing: PreprocessingConfig::PerSource((0..nfiles).map(|k| [ws.clone(), spell.clone(), Pr::None][k % 3].clone()).collect()),
            task: gen,
            postprocessing: PostprocessingConfig::PerSource((0..nfiles).map(|k| [Po::None, Po::ClipLength, mask.clone()][k % 3].clone()).collect()),
        },
        14 => g(
            Pr::Switch(vec![Pr::Prefix(Part::Input, "a ".into()), Pr::Suffix(Part::Input, " z".into()), Pr::None], vec![0.3, 0.3, 0.4]),
            TrainTaskConfig::Classification(byte_tok(), true, vec!["c0".into(), "c1".into(), "c2".into()]),
            Po::Chain(vec![Po::Switch(vec![Po::None, mask], vec![0.5, 0.5]), Po::ClipLength]),
        ),
        // (few insertions: the target becomes the corrupted input and must still carry a whole identity word)
        16 => g(Pr::Chain(vec![Pr::Clean(Part::Input, true), Pr::WhitespaceCorruption(Part::Input, 0.02, 0.4, true), Pr::Overwrite(Part::Target)]), gen, Po::None),
        15 => g(Pr::WhitespaceCorruption(Part::Target, 0.2, 0.2, true), cond, Po::None),
        _ => g(Pr::None, wsc, Po::None),
    }
}

fn strat(s: u64) -> GenerationStrategy {
    match s {
        0 => GenerationStrategy::Sequential,
        1 => GenerationStrategy::Interleaved,
        _ => GenerationStrategy::Weighted,
    }
}

/// the global order of the items (mirror of the generator the loader builds: seed + epoch)
fn global_order(c: &Cfg) -> Result<Vec<(u64, u64)>, String> {
    let gens = files_for(&c.lens, c.bad, cls_files(c.prep)).iter().map(train_data_generator_from_jsonl).collect::<anyhow::Result<Vec<_>>>().map_err(|e| e.to_string())?;
    let g = MultiTrainDataGenerator::new(gens, strat(c.strategy), Some(c.seed.wrapping_add(c.epoch))).map_err(|e| e.to_string())?;
    let mut out = vec![];
    // every source is read in order, so the k-th item tagged with a source is its k-th line (also for lines that fail
    // to parse, which arrive as Err)
    let mut seen = vec![0u64; c.lens.len()];
    for (item, src) in g {
        let k = seen[src];
        seen[src] += 1;
        match item {
            Ok(item) => {
                let (ks, kk) = find_id(item.verif_input()).ok_or("bad item")?;
                if kk != k || ks != src as u64 || is_bad(c.bad, src as u64, k) {
                    return Err("generator mirror: item is not the k-th line of its source".into());
                }
            }
            Err(_) => {
                if !is_bad(c.bad, src as u64, k) {
                    return Err("generator mirror: a valid line failed to parse".into());
                }
            }
        }
        out.push((src as u64, k));
    }
    Ok(out)
}

/// everything an item carries: the preprocessed texts and the task input (ids, labels, pad ids, target ids)
type Fp = (String, String, String);

fn fingerprint(it: &TrainItem) -> Fp {
    (it.data.verif_input().to_string(), it.data.verif_target().to_string(), format!("{:?}", it.input))
}

pub struct RunOut {
    /// batches as lists of (global index, item size, fingerprint)
    pub batches: Vec<Vec<(u64, usize, Fp)>>,
    pub min_items: Option<usize>,
}

pub fn run_loader(c: &Cfg, order: &[(u64, u64)]) -> Result<RunOut, String> {
    run_loader_with(c, order, false)
}

/// `reused`: the loader object has already been iterated (another epoch and fast-forward offset, a few batches
/// taken, the iteration abandoned) before it is set to the requested epoch / offset and iterated again, as a
/// training loop does
pub fn run_loader_with(c: &Cfg, order: &[(u64, u64)], reused: bool) -> Result<RunOut, String> {
    run_loader_at(c, order, reused, files_for(&c.lens, c.bad, cls_files(c.prep)))
}

/// the loader of configuration `c` over the given files (which must have the content of `files_for`)
pub fn run_loader_at(c: &Cfg, order: &[(u64, u64)], reused: bool, paths: Vec<String>) -> Result<RunOut, String> {
    let pos: BTreeMap<(u64, u64), u64> = order.iter().enumerate().map(|(i, p)| (*p, i as u64)).collect();
    let mut l = VerifTrainLoader::from_files(
        paths,
        pipeline(c.prep, c.lens.len()),
        strat(c.strategy),
        c.threads as u8,
        c.buffer as usize,
        c.batch_limit as usize,
        if c.padded { BatchLimitType::PaddedItemSize } else { BatchLimitType::BatchSize },
        max_len(c.prep),
        c.shuffle,
        c.prefetch as usize,
        c.sort,
        if c.seed_none && c.seed == 0 && !c.shuffle { None } else { Some(c.seed) },
        c.skip as usize,
        c.limit.map(|x| x as usize),
        Some((c.rank as usize, c.world as usize)),
    )
    .map_err(|e| e.to_string())?;
    if reused {
        l.set_epoch(c.epoch as usize + 1);
        l.set_fast_forward(1);
        l.iter().map_err(|e| e.to_string())?;
        for _ in 0..2 {
            if l.next_batch().map_err(|e| e.to_string())?.is_none() {
                break;
            }
        }
    }
    if c.ff_first {
        l.set_fast_forward(c.ff as usize);
        l.set_epoch(c.epoch as usize);
    } else {
        l.set_epoch(c.epoch as usize);
        l.set_fast_forward(c.ff as usize);
    }
    l.iter().map_err(|e| e.to_string())?;
    let mut batches = vec![];
    let mut guard = 0;
    while let Some(b) = l.next_batch().map_err(|e| e.to_string())? {
        let mut row = vec![];
        for it in &b {
            // the identity: a whole identity word of the target, or (class labels as targets, corrupted targets) of the input
            let (src, k) = find_id(it.data.verif_target()).or_else(|| find_id(it.data.verif_input())).ok_or("no identity word left in the item")?;
            let gi = *pos.get(&(src, k)).ok_or("item not in the global order")?;
            row.push((gi, it.size(), fingerprint(it)));
        }
        batches.push(row);
        guard += 1;
        if guard > 10000 {
            return Err("loader does not end".into());
        }
    }
    Ok(RunOut { batches, min_items: l.min_items() })
}

fn rd_cfg(r: &mut Rd) -> R<Cfg> {
    let n = r.nat()?;
    let skip = r.nat()?;
    let limit = r.opt(|r| r.nat())?;
    let ff = r.nat()?;
    let rank = r.nat()?;
    let world = r.nat()?;
    let rest = r.nats()?;
    if rest.len() < 14 {
        return Err("short config".into());
    }
    let lens = rest[14..].to_vec();
    if lens.iter().sum::<u64>() != n {
        return Err("N is not the total number of lines".into());
    }
    Ok(Cfg {
        lens,
        bad: rest[11],
        strategy: rest[0],
        seed: rest[1],
        epoch: rest[2],
        threads: rest[3],
        buffer: rest[4],
        sort: rest[5] == 1,
        shuffle: rest[6] == 1,
        prefetch: rest[7],
        batch_limit: rest[8],
        padded: rest[9] == 1,
        prep: rest[10],
        skip,
        limit,
        ff,
        rank,
        world,
        ff_first: rest[12] == 1,
        seed_none: rest[13] == 1,
    })
}

fn enc_cfg(c: &Cfg) -> Vec<u64> {
    let mut v = vec![c.lens.iter().sum::<u64>(), c.skip];
    match c.limit {
        Some(l) => v.extend([1, l]),
        None => v.push(0),
    }
    v.extend([c.ff, c.rank, c.world]);
    let mut rest = vec![c.strategy, c.seed, c.epoch, c.threads, c.buffer, c.sort as u64, c.shuffle as u64, c.prefetch, c.batch_limit, c.padded as u64, c.prep, c.bad, c.ff_first as u64, c.seed_none as u64];
    rest.extend(c.lens.iter().copied());
    enc_nats(&mut v, rest);
    v
}

pub fn exec(op: &str, a: &[u64]) -> Result<Outcome, String> {
    if op == "batch" {
        return crate::props::batch::exec(op, a);
    }
    if op == "selectstall" {
        return exec_stall(a);
    }
    if op == "selectreload" {
        return exec_reload(a);
    }
    if op != "select" {
        return Err(format!("unknown op {op}"));
    }
    let mut r = Rd::new(a);
    let c = rd_cfg(&mut r)?;
    let invalid_req = r.nats()?;
    r.end()?;
    if c.world == 0 || c.rank >= c.world {
        return Err("bad rank / world size".into());
    }
    let order = global_order(&c)?;
    // the global indices of the lines that do not parse (they keep their index but are never delivered)
    if invalid_req != invalid_indices(&c, &order) {
        return Err("invalid-line indices in the request are not those of the generated files".into());
    }
    let base = run_loader(&c, &order)?;
    let mut idx: Vec<u64> = base.batches.iter().flatten().map(|x| x.0).collect();
    let delivered = idx.clone();
    idx.sort();
    let mut v = vec![];
    enc_nats(&mut v, idx.iter().copied());
    v.push(base.min_items.unwrap_or(0) as u64);
    let mut o = Outcome::new(ok(v));
    // ---- C08 oracle (self-differential) ----
    // reference: the single-process, unthreaded, uninterrupted stream of the same configuration
    let reference_cfg = Cfg { threads: 0, buffer: 0, ff: 0, rank: 0, world: 1, sort: false, shuffle: false, ..c.clone() };
    let reference = run_loader(&reference_cfg, &order)?;
    let ref_items: BTreeMap<u64, Fp> = reference.batches.iter().flatten().map(|x| (x.0, x.2.clone())).collect();
    let ref_order: Vec<u64> = reference.batches.iter().flatten().map(|x| x.0).collect();
    o.check(ref_order.windows(2).all(|w| w[0] < w[1]), "the single-process stream is not in global order");
    for (gi, _, fp) in base.batches.iter().flatten() {
        match ref_items.get(gi) {
            Some(rf) => o.check(rf == fp, "a global item index is processed differently for another rank / world size / fast-forward / thread count / buffer size"),
            None => o.check(false, "the loader delivered an item outside the single-process stream restricted by skip and limit"),
        }
    }
    // restart: the uninterrupted single-process stream after its first ff items (same order without shuffling)
    // fast_forward(k): the code skips k LINES (global indices), the property speaks of the first k ITEMS of the
    // uninterrupted stream.  The two differ exactly when a line that does not parse lies among the skipped ones
    // (known finding F17); everything else is checked with the line semantics, which is what the code implements.
    let first = c.skip.saturating_add(c.ff);
    let ff_skips_invalid = invalid_req.iter().any(|&i| i >= c.skip && i < first && c.limit.map(|l| i < l).unwrap_or(true));
    let want_lines: Vec<u64> = ref_order.iter().filter(|&&gi| gi >= first).copied().collect();
    let want_items: Vec<u64> = ref_order.iter().skip(c.ff as usize).copied().collect();
    if c.world == 1 && !c.sort && !c.shuffle {
        o.check(delivered == want_lines, "fast_forward(k) does not yield the uninterrupted stream after its first k lines in the same order");
        if ff_skips_invalid {
            o.check(delivered == want_items, "F17 fast_forward(k) skips k lines, not k delivered items: a line that does not parse lies among the skipped ones, so items the uninterrupted stream had already delivered are delivered again");
        } else {
            o.check(delivered == want_items, "fast_forward(k) does not yield the uninterrupted stream after its first k items in the same order");
        }
    }
    // all ranks together: disjoint, union = the single-process stream after ff
    if c.rank == 0 && c.world > 1 {
        let mut all: Vec<u64> = idx.clone();
        for rk in 1..c.world {
            let other = run_loader(&Cfg { rank: rk, ..c.clone() }, &order)?;
            all.extend(other.batches.iter().flatten().map(|x| x.0));
        }
        let n_all = all.len();
        all.sort();
        all.dedup();
        o.check(all.len() == n_all, "per-rank streams overlap");
        let mut wl = want_lines.clone();
        wl.sort();
        o.check(all == wl, "union of the per-rank streams is not the single-process stream restricted by skip, limit and fast-forward");
        let mut wi = want_items.clone();
        wi.sort();
        if ff_skips_invalid {
            o.check(all == wi, "F17 fast_forward(k) skips k lines, not k delivered items: a line that does not parse lies among the skipped ones, so items the uninterrupted stream had already delivered are delivered again");
        } else {
            o.check(all == wi, "union of the per-rank streams is not the uninterrupted stream after its first k items");
        }
    }
    // a second, independently constructed loader and other thread counts / buffer sizes: identical batch sequences
    let as_ids = |r: &RunOut| r.batches.iter().map(|b| b.iter().map(|x| (x.0, x.2.clone())).collect::<Vec<_>>()).collect::<Vec<_>>();
    let again = run_loader(&c, &order)?;
    o.check(as_ids(&again) == as_ids(&base), "two loaders with the same configuration produce different items or batches");
    let reused = run_loader_with(&c, &order, true)?;
    o.check(as_ids(&reused) == as_ids(&base), "a loader that was iterated before (another epoch, abandoned) produces different items or batches than a fresh one");
    for (t, b) in [(0u64, 0u64), (1, 1), (3, 4)] {
        if (t, b) != (c.threads, c.buffer) {
            let other = run_loader(&Cfg { threads: t, buffer: b, ..c.clone() }, &order)?;
            o.check(as_ids(&other) == as_ids(&base), "item / batch sequence depends on the number of threads or the buffer size");
        }
    }
    o.check(base.min_items.is_some(), "min_items not set");
    Ok(o)
}

/// `selectstall ms k <select request>`: the loader of the request with at least one worker thread, while the worker
/// that processed the item with index `k` (position in the loader's own stream) is held up for `ms` milliseconds of
/// wall time at the schedule point after the computation (the consumer waits in `next()` that long, the other workers
/// wait for their turn).  Items and batches must be those of the unthreaded loader.
fn exec_stall(a: &[u64]) -> Result<Outcome, String> {
    if a.len() < 2 {
        return Err("short request".into());
    }
    let (ms, k) = (a[0], a[1] as usize);
    let mut r = Rd::new(&a[2..]);
    let c = rd_cfg(&mut r)?;
    let _invalid = r.nats()?;
    r.end()?;
    if c.world == 0 || c.rank >= c.world {
        return Err("bad rank / world size".into());
    }
    let order = global_order(&c)?;
    let unthreaded = run_loader(&Cfg { threads: 0, buffer: 0, ..c.clone() }, &order)?;
    let fired = Arc::new(std::sync::atomic::AtomicBool::new(false));
    let f2 = fired.clone();
    text_utils::verif::install(Some(Arc::new(move |comp, _w, label, idx, _flag| {
        if comp == "pipe" && label == "computed" && idx == k && !f2.swap(true, std::sync::atomic::Ordering::SeqCst) {
            std::thread::sleep(std::time::Duration::from_millis(ms));
        }
    })));
    let stalled = run_loader(&Cfg { threads: c.threads.max(1), ..c.clone() }, &order);
    text_utils::verif::install(None);
    let stalled = stalled?;
    let as_ids = |r: &RunOut| r.batches.iter().map(|b| b.iter().map(|x| (x.0, x.2.clone())).collect::<Vec<_>>()).collect::<Vec<_>>();
    let mut idx: Vec<u64> = stalled.batches.iter().flatten().map(|x| x.0).collect();
    idx.sort();
    let mut v = vec![];
    enc_nats(&mut v, idx.iter().copied());
    v.push(stalled.min_items.unwrap_or(0) as u64);
    let mut o = Outcome::new(ok(v));
    o.check(as_ids(&stalled) == as_ids(&unthreaded), "items or batches depend on how long a worker thread takes (a stalled worker: the stream ended early, lost items or cut a batch short)");
    let n_items: usize = unthreaded.batches.iter().map(|b| b.len()).sum();
    if n_items > k {
        o.check(fired.load(std::sync::atomic::Ordering::SeqCst), "the stalled schedule point was never reached");
    }
    Ok(o)
}

/// `selectreload <select request>`: the files of the request are first written, at fresh paths, with OTHER content of
/// exactly the same byte size but another number of lines, and loaded; then the real content is written to the same
/// paths and loaded.  "For fixed files ... the sequence is identical": what a path contained earlier in the process
/// must not matter (sizes, line counts, offsets remembered per path).
fn exec_reload(a: &[u64]) -> Result<Outcome, String> {
    static COUNTER: std::sync::atomic::AtomicUsize = std::sync::atomic::AtomicUsize::new(0);
    let mut r = Rd::new(a);
    let c = rd_cfg(&mut r)?;
    let _invalid = r.nats()?;
    r.end()?;
    if c.world == 0 || c.rank >= c.world {
        return Err("bad rank / world size".into());
    }
    let order = global_order(&c)?;
    let real = files_for(&c.lens, c.bad, cls_files(c.prep));
    let reference = run_loader(&c, &order)?;
    let run = COUNTER.fetch_add(1, std::sync::atomic::Ordering::SeqCst);
    let mut paths = vec![];
    let mut contents = vec![];
    for (k, p) in real.iter().enumerate() {
        let bytes = std::fs::read(p).map_err(|e| e.to_string())?;
        // same size, other number of lines: all line feeds but the last become blanks; a one-line file gets a second line
        let mut decoy = bytes.clone();
        let lf: Vec<usize> = decoy.iter().enumerate().filter(|(_, b)| **b == b'\n').map(|(i, _)| i).collect();
        if lf.len() >= 2 {
            for &i in &lf[..lf.len() - 1] {
                decoy[i] = b' ';
            }
        } else if let Some(i) = decoy.iter().position(|b| *b == b' ') {
            decoy[i] = b'\n';
        }
        let q = format!("{}/reload-{run}-{k}.jsonl", tmp());
        std::fs::write(&q, &decoy).map_err(|e| e.to_string())?;
        paths.push(q);
        contents.push(bytes);
    }
    // load the decoys (whatever they give), then put the real content at the same paths
    let _ = std::panic::catch_unwind(|| run_loader_at(&Cfg { threads: 0, ..c.clone() }, &order, false, paths.clone()).ok());
    for (q, bytes) in paths.iter().zip(&contents) {
        std::fs::write(q, bytes).map_err(|e| e.to_string())?;
    }
    let after = run_loader_at(&c, &order, false, paths.clone());
    for q in &paths {
        std::fs::remove_file(q).ok();
    }
    let after = after?;
    let as_ids = |r: &RunOut| r.batches.iter().map(|b| b.iter().map(|x| (x.0, x.2.clone())).collect::<Vec<_>>()).collect::<Vec<_>>();
    let mut idx: Vec<u64> = after.batches.iter().flatten().map(|x| x.0).collect();
    idx.sort();
    let mut v = vec![];
    enc_nats(&mut v, idx.iter().copied());
    v.push(after.min_items.unwrap_or(0) as u64);
    let mut o = Outcome::new(ok(v));
    o.check(as_ids(&after) == as_ids(&reference), "the items / batches of a loader depend on what its files contained EARLIER in this process (same paths, same sizes, other lines)");
    o.check(after.min_items == reference.min_items, "min_items depends on what the files contained earlier in this process");
    Ok(o)
}

fn invalid_indices(c: &Cfg, order: &[(u64, u64)]) -> Vec<u64> {
    order.iter().enumerate().filter(|(_, (src, k))| is_bad(c.bad, *src, *k)).map(|(i, _)| i as u64).collect()
}

/// the request: configuration + the global indices of the unparseable lines
fn enc_select(c: &Cfg) -> Vec<u64> {
    let mut v = enc_cfg(c);
    let inv = global_order(c).map(|o| invalid_indices(c, &o)).unwrap_or_default();
    enc_nats(&mut v, inv);
    v
}

fn rand_cfg(ctx: &mut Ctx) -> Cfg {
    let k = ctx.rng.random_range(1..=3);
    let lens: Vec<u64> = (0..k).map(|_| ctx.rng.random_range(1..=7)).collect();
    let n: u64 = lens.iter().sum();
    let world = [1u64, 1, 2, 3, 2, 3, 8, 17][ctx.rng.random_range(0..8)];
    Cfg {
        strategy: ctx.rng.random_range(0..3),
        // 0 is the value an unset seed arrives as (unwrap_or_default)
        seed: if ctx.rng.random_range(0..4) == 0 { 0 } else { ctx.rng.random_range(0..50) },
        epoch: ctx.rng.random_range(0..3),
        threads: [0u64, 1, 2, 4][ctx.rng.random_range(0..4)],
        buffer: [0u64, 1, 4, 16][ctx.rng.random_range(0..4)],
        sort: ctx.rng.random_bool(0.3),
        shuffle: ctx.rng.random_bool(0.3),
        prefetch: ctx.rng.random_range(0..3),
        batch_limit: ctx.rng.random_range(1..=5),
        padded: false,
        prep: ctx.rng.random_range(0..N_PREP),
        skip: ctx.rng.random_range(0..=n.min(4)),
        limit: if ctx.rng.random_bool(0.5) { None } else { Some(ctx.rng.random_range(0..=n + 2)) },
        ff: ctx.rng.random_range(0..=4),
        rank: ctx.rng.random_range(0..world),
        world,
        ff_first: ctx.rng.random_bool(0.5),
        seed_none: false,
        // a third of the configurations have lines that do not parse (incl. first lines, split points)
        bad: [0u64, 0, 0, 0, 2, 3, 5][ctx.rng.random_range(0..7)],
        lens,
    }
}

pub fn run_c08(ctx: &mut Ctx) {
    ctx.case_timeout = std::time::Duration::from_secs(300);
    let n = ctx.budget(51, 1500);
    for i in 0..n {
        let mut c = rand_cfg(ctx);
        // every pipeline configuration in turn (a quick run sees each of them three times)
        c.prep = i % N_PREP;
        // values at the top of the integer range: a seed near u64::MAX (seed + epoch, seed + item index), "skip /
        // fast-forward everything", an explicit "no limit"
        if i % 5 == 1 {
            // a loader without a seed (shuffle off): it must behave exactly like seed 0
            c.seed_none = true;
            c.seed = 0;
            c.shuffle = false;
            if i % 10 == 1 {
                c.strategy = 2;
            }
        } else {
            c.seed_none = false;
        }
        match i % 10 {
            3 => c.seed = u64::MAX - ctx.rng.random_range(0..3u64),
            5 => c.skip = u64::MAX - ctx.rng.random_range(0..2u64),
            7 => c.ff = u64::MAX - ctx.rng.random_range(0..2u64),
            9 => c.limit = Some(u64::MAX),
            _ => {}
        }
        ctx.case("select", &enc_select(&c));
        if i % 4 == 2 {
            // (weighted sampling and min_items depend on the line counts of the files)
            let mut cr = c.clone();
            if i % 8 == 2 {
                cr.strategy = 2;
            }
            ctx.case("selectreload", &enc_select(&cr));
        }
        // the batch sequence of this loader, replayed by the C06 model: items in delivery order of the pipeline
        // (= selection order), sizes = item sizes, same batching configuration and seed
        if let Ok(order) = global_order(&c) {
            let plain = Cfg { sort: false, shuffle: false, ..c.clone() };
            if let (Ok(stream), Ok(run)) = (run_loader(&plain, &order), run_loader(&c, &order)) {
                let items: Vec<crate::props::batch::It> = stream.batches.iter().flatten().map(|x| crate::props::batch::It { id: x.0, size: x.1 }).collect();
                let mut v = vec![c.sort as u64, c.shuffle as u64, c.padded as u64, c.prefetch, c.batch_limit, c.seed.wrapping_add(c.epoch)];
                v.push(items.len() as u64);
                for it in &items {
                    v.push(it.id);
                    v.push(it.size as u64);
                }
                v.push(run.batches.len() as u64);
                for b in &run.batches {
                    enc_nats(&mut v, b.iter().map(|x| x.0));
                }
                ctx.case("batch", &v);
            }
        }
    }
    // a worker that is held up for several seconds of wall time (once per run)
    if ctx.first_shard() {
        let stalls: &[(u64, u64)] = if ctx.thorough { &[(6500, 3), (11000, 9)] } else { &[(6500, 3)] };
        for &(ms, k) in stalls {
            let mut c = rand_cfg(ctx);
            c.lens = vec![9, 7];
            c.bad = 0;
            c.skip = 0;
            c.limit = None;
            c.ff = 0;
            c.rank = 0;
            c.world = 1;
            c.threads = 2;
            c.buffer = 2;
            c.prep = 1;
            c.batch_limit = 3;
            c.seed_none = false;
            let mut v = vec![ms, k];
            v.extend(enc_select(&c));
            ctx.case("selectstall", &v);
        }
    }
    std::fs::remove_dir_all(tmp()).ok();
}
