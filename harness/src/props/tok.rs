//! C01 (byte / char tokenizers), C02 / C03 (BPE), C04 (vocabulary maps), groups of C17
use crate::ctx::{Ctx, Outcome};
use crate::gen;
use crate::wire::*;
use rand::seq::IndexedRandom;
use rand::Rng;
use std::cell::RefCell;
use std::collections::HashMap;
use text_utils::tokenization::{
    tokenizer, BPETokenizerConfig, ByteGroups, ByteTokenizerConfig, CharTokenizerConfig, GroupAggregation, SpecialConfig,
    TokenGroup, TokenizationInfo, TokenizeConfig, Tokenizer, TokenizerConfig,
};
#[allow(unused_imports)]
use text_utils::tokenization::{BaseTokenize, Tokenize};
use text_utils::utils::SerializeMsgPack;

#[derive(Clone, Debug, PartialEq)]
pub struct Common {
    pub tokens: Vec<String>,
    pub pad: String,
    pub prefix: Vec<String>,
    pub suffix: Vec<String>,
}

#[derive(Clone, Debug, PartialEq)]
pub enum Kind {
    Byte { cp_groups: bool, pad_to: Option<usize> },
    Char { g: bool, alphabet: Vec<u64>, unk: String },
    Bpe { table: Vec<(Vec<u8>, u32)>, max_vocab: Option<usize> },
}

fn rd_strs(r: &mut Rd) -> R<Vec<String>> {
    r.list(|r| {
        let b = r.bytes()?;
        String::from_utf8(b).map_err(|_| "token not utf-8".to_string())
    })
}

fn rd_common(r: &mut Rd) -> R<Common> {
    let tokens = rd_strs(r)?;
    let pad = String::from_utf8(r.bytes()?).map_err(|_| "pad not utf-8")?;
    let prefix = rd_strs(r)?;
    let suffix = rd_strs(r)?;
    Ok(Common { tokens, pad, prefix, suffix })
}

fn enc_strs(out: &mut Vec<u64>, l: &[String]) {
    out.push(l.len() as u64);
    for s in l {
        enc_bytes(out, s.as_bytes());
    }
}

fn enc_common(out: &mut Vec<u64>, c: &Common) {
    enc_strs(out, &c.tokens);
    enc_bytes(out, c.pad.as_bytes());
    enc_strs(out, &c.prefix);
    enc_strs(out, &c.suffix);
}

pub fn enc_kind(out: &mut Vec<u64>, k: &Kind) {
    match k {
        Kind::Byte { cp_groups, pad_to } => {
            out.push(*cp_groups as u64);
            match pad_to {
                Some(p) => out.extend([1, *p as u64]),
                None => out.push(0),
            }
        }
        Kind::Char { g, alphabet, unk } => {
            out.push(*g as u64);
            enc_nats(out, alphabet.iter().copied());
            enc_bytes(out, unk.as_bytes());
        }
        Kind::Bpe { table, max_vocab } => {
            out.push(table.len() as u64);
            for (b, id) in table {
                enc_bytes(out, b);
                out.push(*id as u64);
            }
            match max_vocab {
                Some(p) => out.extend([1, *p as u64]),
                None => out.push(0),
            }
        }
    }
}

fn rd_kind(op: &str, r: &mut Rd) -> R<Kind> {
    if op.starts_with("byte") {
        let cp_groups = r.bool()?;
        let pad_to = r.opt(|r| r.usize())?;
        Ok(Kind::Byte { cp_groups, pad_to })
    } else if op.starts_with("char") {
        let g = r.bool()?;
        let alphabet = r.nats()?;
        let unk = String::from_utf8(r.bytes()?).map_err(|_| "unk not utf-8")?;
        Ok(Kind::Char { g, alphabet, unk })
    } else {
        let table = r.list(|r| Ok((r.bytes()?, r.nat()? as u32)))?;
        let max_vocab = r.opt(|r| r.usize())?;
        Ok(Kind::Bpe { table, max_vocab })
    }
}

pub struct Built {
    pub tok: Tokenizer,
    pub g: bool,
    /// number of regular ids (256 / |alphabet| / 256 + merges)
    pub offset: usize,
    /// special tokens in id order, from the implementation's own get_vocab
    pub specials: Vec<String>,
}

thread_local! {
    static CACHE: RefCell<HashMap<Vec<u64>, Option<std::rc::Rc<Built>>>> = RefCell::new(HashMap::new());
    static TMP: RefCell<Option<String>> = RefCell::new(None);
}

pub fn set_tmp(dir: &str) {
    TMP.with(|t| *t.borrow_mut() = Some(dir.to_string()));
}

fn tmp_dir() -> String {
    TMP.with(|t| t.borrow().clone()).unwrap_or_else(|| {
        let d = format!("/verif/work/replay-{}", std::process::id());
        std::fs::create_dir_all(&d).ok();
        d
    })
}

/// g: use_graphemes of byte tokenizers (affects groups only) is derived from the request pieces
pub fn build(kind: &Kind, c: &Common, g_byte: bool) -> Option<std::rc::Rc<Built>> {
    let mut key = vec![g_byte as u64];
    enc_kind(&mut key, kind);
    enc_common(&mut key, c);
    if let Some(hit) = CACHE.with(|ca| ca.borrow().get(&key).cloned()) {
        return hit;
    }
    let special = SpecialConfig { pad: c.pad.clone(), tokens: c.tokens.clone(), prefix: c.prefix.clone(), suffix: c.suffix.clone() };
    let (tcfg, g) = match kind {
        Kind::Byte { cp_groups, pad_to } => (
            TokenizeConfig::Byte(ByteTokenizerConfig {
                use_graphemes: g_byte,
                pad_to_multiple_of: *pad_to,
                groups: if *cp_groups { ByteGroups::CodePoints } else { ByteGroups::Bytes },
                aggregation: GroupAggregation::Mean,
            }),
            g_byte,
        ),
        Kind::Char { g, unk, .. } => (TokenizeConfig::Character(CharTokenizerConfig { use_graphemes: *g, unk_token: unk.clone() }), *g),
        Kind::Bpe { table, max_vocab } => {
            let mut h = std::collections::hash_map::DefaultHasher::new();
            std::hash::Hash::hash(&key, &mut h);
            let path = format!("{}/merges-{:x}.bin", tmp_dir(), std::hash::Hasher::finish(&h));
            let m: HashMap<Vec<u8>, u32> = table.iter().cloned().collect();
            m.save(&path).expect("write merge file");
            (TokenizeConfig::BPE(BPETokenizerConfig { merge_file: path.into(), max_vocab_size: *max_vocab, use_graphemes: true }), true)
        }
    };
    let built = tokenizer(TokenizerConfig { tokenize: tcfg, special }).ok().map(|tok| {
        let vocab = tok.get_vocab().expect("get_vocab");
        let offset = regular_count(kind, c).min(vocab.len());
        let specials = vocab[offset..].iter().map(|b| String::from_utf8_lossy(b).to_string()).collect();
        std::rc::Rc::new(Built { tok, g, offset, specials })
    });
    CACHE.with(|ca| {
        let mut ca = ca.borrow_mut();
        if ca.len() > 64 {
            ca.clear();
        }
        ca.insert(key, built.clone());
    });
    built
}

/// number of regular tokens, known from the configuration (256, |alphabet|, 256 + retained merges)
fn regular_count(kind: &Kind, c: &Common) -> usize {
    match kind {
        Kind::Byte { .. } => 256,
        Kind::Char { alphabet, .. } => alphabet.len(),
        Kind::Bpe { table, max_vocab } => {
            let lim = max_vocab.map(|l| l.saturating_sub(c.tokens.len()).saturating_sub(256) as u32);
            256 + table.iter().filter(|(_, id)| lim.map(|l| *id < l).unwrap_or(true)).count()
        }
    }
}

/// harness-side reference split (leftmost, first listed token that matches) — used to build the
/// request's piece list; the model recomputes the split itself and refuses a request that disagrees
pub fn ref_split<'a>(specials: &[String], s: &'a str, ign: bool) -> Vec<(bool, &'a str)> {
    if ign || specials.is_empty() {
        return vec![(false, s)];
    }
    let mut out = vec![];
    let mut last = 0;
    let mut pos = 0;
    while pos < s.len() {
        let rest = &s[pos..];
        if let Some(t) = specials.iter().find(|t| !t.is_empty() && rest.starts_with(t.as_str())) {
            if pos > last {
                out.push((false, &s[last..pos]));
            }
            out.push((true, &s[pos..pos + t.len()]));
            pos += t.len();
            last = pos;
        } else {
            pos += rest.chars().next().unwrap().len_utf8();
        }
    }
    if last < s.len() {
        out.push((false, &s[last..]));
    }
    out
}

pub fn enc_pieces(out: &mut Vec<u64>, pieces: &[(bool, &str)], g: bool) {
    out.push(pieces.len() as u64);
    for (sp, p) in pieces {
        if *sp {
            out.push(1);
            enc_bytes(out, p.as_bytes());
        } else {
            out.push(0);
            out.extend(enc_text(p, g));
        }
    }
}

fn rd_pieces(r: &mut Rd) -> R<(String, Vec<Vec<Vec<u64>>>)> {
    // returns the whole text and the cluster lists of the regular pieces
    let n = r.usize()?;
    let mut s = String::new();
    let mut regs = vec![];
    for _ in 0..n {
        match r.nat()? {
            0 => {
                let t = r.text()?;
                s.push_str(&text_to_string(&t)?);
                regs.push(t);
            }
            1 => {
                let b = r.bytes()?;
                s.push_str(std::str::from_utf8(&b).map_err(|_| "special piece not utf-8")?);
            }
            _ => return Err("bad piece kind".into()),
        }
    }
    Ok((s, regs))
}

fn enc_group(out: &mut Vec<u64>, g: &TokenGroup) -> Result<(), String> {
    match g {
        TokenGroup::Full(n) => out.extend([0, *n as u64]),
        TokenGroup::Nested(gs) => {
            out.push(1);
            out.push(gs.len() as u64);
            for x in gs {
                match x {
                    TokenGroup::Full(n) => out.push(*n as u64),
                    _ => return Err("unexpected nested group shape".into()),
                }
            }
        }
        TokenGroup::Empty(_) => return Err("unexpected empty group".into()),
    }
    Ok(())
}

fn special_strs(b: &Built, ids: &[u32]) -> Option<String> {
    let mut s = String::new();
    for id in ids {
        s.push_str(b.specials.get((*id as usize).checked_sub(b.offset)?)?);
    }
    Some(s)
}

pub fn exec(op: &str, a: &[u64]) -> Result<Outcome, String> {
    let mut o = exec_inner(op, a)?;
    if op != "bpeword" {
        // a special-token set that is not prefix-free: the split depends on the order of the regex alternatives, which
        // the code takes from a HashMap (open in the property; the model refuses such requests)
        let mut r = Rd::new(a);
        if let (Ok(_), Ok(c)) = (rd_kind(op, &mut r), rd_common(&mut r)) {
            if c.tokens.iter().any(|t| c.tokens.iter().any(|u| u != t && u.starts_with(t.as_str()))) {
                o.pinned = false;
            }
        }
    }
    Ok(o)
}

fn exec_inner(op: &str, a: &[u64]) -> Result<Outcome, String> {
    let mut r = Rd::new(a);
    if op == "bpeword" {
        return exec_bpeword(&mut r);
    }
    let kind = rd_kind(op, &mut r)?;
    let c = rd_common(&mut r)?;
    match op {
        "bytetok" | "chartok" | "bpetok" => {
            let ign = r.bool()?;
            let (s, regs) = rd_pieces(&mut r)?;
            r.end()?;
            // byte tokenizer: use_graphemes is whatever makes the request's clusters the real ones
            let g_byte = match &kind {
                Kind::Byte { .. } => regs.iter().any(|t| t.iter().any(|c| c.len() > 1)),
                _ => false,
            };
            let Some(b) = build(&kind, &c, g_byte) else {
                return Ok(Outcome::new(err("config")));
            };
            // the request's pieces must be the reference split with the real segmentation
            let pieces = ref_split(&b.specials, &s, ign);
            let mut chk = vec![];
            enc_pieces(&mut chk, &pieces, b.g);
            let tail_start = a.len() - chk.len().min(a.len());
            if a[tail_start..] != chk[..] {
                return Err("pieces in request are not the reference split / segmentation".into());
            }
            let res = b.tok.tokenize(&s, ign);
            let t = match res {
                Ok(t) => t,
                Err(_) => {
                    let mut o = Outcome::new(err("tokenize"));
                    o.check(false, "tokenize returned an error");
                    return Ok(o);
                }
            };
            let ids = &t.token_ids;
            // the tokenizer object carries no state between calls: the same input gives the same ids after other
            // inputs went through the same object
            let other: String = s.chars().rev().chain("a b".chars()).collect();
            let _ = b.tok.tokenize(&other, ign);
            let _ = b.tok.tokenize("", !ign);
            let repeat_ok = matches!(b.tok.tokenize(&s, ign), Ok(t3) if t3.token_ids == *ids);
            let mut v = vec![];
            enc_nats(&mut v, ids.iter().map(|&x| x as u64));
            let np = b.tok.prefix_token_ids().len();
            let ns = b.tok.suffix_token_ids().len();
            // the prefix / suffix ids are those of the CONFIGURED prefix / suffix tokens (whatever else the configuration
            // says: vocabulary padding, duplicates in the token list)
            let cfg_ids = |l: &Vec<String>| l.iter().map(|t| b.specials.iter().position(|x| x == t).map(|i| (b.offset + i) as u32)).collect::<Vec<_>>();
            let affix_ok = cfg_ids(&c.prefix) == b.tok.prefix_token_ids().iter().map(|&x| Some(x)).collect::<Vec<_>>()
                && cfg_ids(&c.suffix) == b.tok.suffix_token_ids().iter().map(|&x| Some(x)).collect::<Vec<_>>();
            let mut o;
            let n_clusters: usize = pieces.iter().map(|(sp, p)| if *sp { 1 } else { clusters(p, b.g).len() }).sum();
            match &kind {
                Kind::Byte { .. } => {
                    let TokenizationInfo::TokenGroups(m) = &t.info else { return Err("no token groups".into()) };
                    let (groups, _) = m.values().next().ok_or("empty groups map")?;
                    v.push(groups.len() as u64);
                    for g in groups {
                        enc_group(&mut v, g)?;
                    }
                    o = Outcome::new(ok(v));
                    o.check(repeat_ok, "tokenizing the same input again (after other inputs) gives different ids: state carried between calls");
                    o.check(affix_ok, "the prefix / suffix ids of the tokenizer are not the ids of the configured prefix / suffix tokens");
                    // C01 oracle: prefix ids, then exactly the UTF-8 bytes (specials as single ids), then suffix ids
                    let mut want: Vec<u32> = b.tok.prefix_token_ids().to_vec();
                    for (sp, p) in &pieces {
                        if *sp {
                            match b.specials.iter().position(|t| t == p) {
                                Some(i) => want.push((b.offset + i) as u32),
                                None => want.push(u32::MAX),
                            }
                        } else {
                            want.extend(p.bytes().map(|x| x as u32));
                        }
                    }
                    want.extend(b.tok.suffix_token_ids());
                    // for a token set in which one token is a prefix of another the split depends on the
                    // regex alternation order (HashMap order): only the order-independent facts are demanded there
                    let pf = b.specials.iter().all(|x| !x.is_empty() && b.specials.iter().all(|y| x == y || !y.starts_with(x.as_str())));
                    if pf || ign {
                        o.check(*ids == want, "byte ids != prefix ++ utf-8 bytes (specials as ids) ++ suffix");
                    }
                    // the special tokens are exactly the configured ones plus the FEWEST <extra_token_i> that pad the
                    // vocabulary to a multiple of pad_to_multiple_of: nothing else may be parsed as a special token
                    if let Kind::Byte { pad_to, .. } = &kind {
                        let mut uniq: Vec<&String> = vec![];
                        for t in &c.tokens {
                            if !uniq.contains(&t) {
                                uniq.push(t);
                            }
                        }
                        let base = 256 + uniq.len();
                        let padded = match pad_to {
                            Some(p) if *p > 0 => base.div_ceil(*p) * *p,
                            _ => base,
                        };
                        // generated padding tokens may coincide with configured ones (then the vocabulary stays short)
                        o.check(256 + b.specials.len() <= padded, "the tokenizer has more special tokens than the configuration asks for (tokens + minimal padding)");
                        o.check(uniq.iter().all(|t| b.specials.contains(t)), "a configured special token is missing");
                    }
                    // C17 oracle (groups partition the ids)
                    o.check(groups.iter().map(|g| g.len()).sum::<usize>() == ids.len(), "group lengths do not sum to the number of ids");
                    if pf || ign {
                        o.check(groups.len() == np + ns + n_clusters, "not one group per character / special / prefix / suffix token");
                    }
                }
                Kind::Char { alphabet, .. } => {
                    o = Outcome::new(ok(v));
                    o.check(repeat_ok, "tokenizing the same input again (after other inputs) gives different ids: state carried between calls");
                    let pf = b.specials.iter().all(|x| !x.is_empty() && b.specials.iter().all(|y| x == y || !y.starts_with(x.as_str())));
                    if !(pf || ign) {
                        return Ok(o);
                    }
                    o.check(ids.len() == np + ns + n_clusters, "not exactly one id per character");
                    let unk = b.specials.iter().position(|t| Some(t) == match &kind { Kind::Char { unk, .. } => Some(unk), _ => None }).map(|i| (b.offset + i) as u32);
                    let mut k = np;
                    for (sp, p) in &pieces {
                        if *sp {
                            k += 1;
                            continue;
                        }
                        for cl in clusters(p, b.g) {
                            let in_alpha = cl.len() == 1 && alphabet.contains(&cl[0]);
                            if k < ids.len() {
                                o.check((Some(ids[k]) == unk) == !in_alpha, "unknown id iff character outside the alphabet");
                                if in_alpha {
                                    o.check(Some(ids[k] as usize) == alphabet.iter().position(|&x| x == cl[0]), "alphabet character mapped to a wrong id");
                                }
                            }
                            k += 1;
                        }
                    }
                }
                Kind::Bpe { .. } => {
                    o = Outcome::new(ok(v));
                    o.check(repeat_ok, "tokenizing the same input again (after other inputs) gives different ids: state carried between calls");
                    o.check(ids.iter().all(|&i| (i as usize) < b.tok.vocab_size()), "emitted id outside the vocabulary");
                }
            }
            // round trips
            let pre_s = special_strs(&b, b.tok.prefix_token_ids());
            let suf_s = special_strs(&b, b.tok.suffix_token_ids());
            let keep = b.tok.de_tokenize(ids, false);
            let mid = b.tok.de_tokenize(&ids[np.min(ids.len())..ids.len() - ns.min(ids.len())], false);
            match &kind {
                Kind::Byte { .. } => {
                    if let (Some(p), Some(sf)) = (&pre_s, &suf_s) {
                        o.check(matches!(&keep, Ok(d) if *d == format!("{p}{s}{sf}")), "decoding with special tokens kept != prefix + text + suffix");
                    }
                    o.check(matches!(&mid, Ok(d) if *d == s), "decoding the text ids with special tokens kept != original string");
                }
                Kind::Char { alphabet, .. } => {
                    let all_in = pieces.iter().all(|(sp, p)| *sp || clusters(p, b.g).iter().all(|cl| cl.len() == 1 && alphabet.contains(&cl[0])));
                    if all_in {
                        o.check(matches!(&mid, Ok(d) if *d == s), "text over the alphabet does not round-trip");
                        if ign {
                            o.check(matches!(b.tok.de_tokenize(ids, true), Ok(d) if d == s), "text over the alphabet does not round-trip (special tokens ignored)");
                        }
                    }
                }
                Kind::Bpe { .. } => {
                    if ign {
                        let d = b.tok.de_tokenize(ids, true);
                        o.check(matches!(&d, Ok(d) if *d == s.trim_end()), "C02: decoded text != input without its trailing whitespace");
                    }
                }
            }
            Ok(o)
        }
        "bytedetok" | "chardetok" | "bpedetok" => {
            let ign = r.bool()?;
            let ids: Vec<u32> = r.nats()?.into_iter().map(|x| x as u32).collect();
            r.end()?;
            let Some(b) = build(&kind, &c, false) else {
                return Ok(Outcome::new(err("config")));
            };
            Ok(Outcome::new(match b.tok.de_tokenize(&ids, ign) {
                Ok(s) => {
                    let mut v = vec![];
                    enc_bytes(&mut v, s.as_bytes());
                    ok(v)
                }
                Err(_) => err("detok"),
            }))
        }
        "bytevocab" | "charvocab" | "bpevocab" => {
            let margin = r.usize()?;
            r.end()?;
            let Some(b) = build(&kind, &c, false) else {
                return Ok(Outcome::new(err("config")));
            };
            let tok = &b.tok;
            let vocab = tok.get_vocab().map_err(|e| e.to_string())?;
            let size = tok.vocab_size();
            let mut v = vec![size as u64, vocab.len() as u64];
            for t in &vocab {
                enc_bytes(&mut v, t);
            }
            v.push(tok.pad_token_id() as u64);
            enc_nats(&mut v, tok.prefix_token_ids().iter().map(|&x| x as u64));
            enc_nats(&mut v, tok.suffix_token_ids().iter().map(|&x| x as u64));
            let unk = match &kind {
                Kind::Char { unk, .. } => tok.token_to_id(unk),
                _ => None,
            };
            match unk {
                Some(u) => v.extend([1, u as u64]),
                None => v.push(0),
            }
            v.push((size + margin) as u64);
            let mut id2 = vec![];
            for id in 0..(size + margin) as u32 {
                let t = tok.id_to_token(id);
                match &t {
                    Some(t) => {
                        v.push(1);
                        enc_bytes(&mut v, t);
                    }
                    None => v.push(0),
                }
                id2.push(t);
            }
            v.push(vocab.len() as u64);
            let mut t2 = vec![];
            for t in &vocab {
                let r = std::str::from_utf8(t).ok().and_then(|s| tok.token_to_id(s));
                match r {
                    Some(i) => v.extend([1, i as u64]),
                    None => v.push(0),
                }
                t2.push(r);
            }
            let mut o = Outcome::new(ok(v));
            // C04 oracle: the equalities of the statement on the API
            o.check(vocab.len() == size, "get_vocab does not have vocab_size entries");
            for (id, t) in id2.iter().enumerate() {
                if id < vocab.len() {
                    o.check(t.as_ref() == Some(&vocab[id]), "id_to_token(id) != get_vocab()[id]");
                } else {
                    o.check(t.is_none(), "id_to_token is not None above vocab_size");
                }
            }
            // token_to_id maps every UTF-8 token back to its id (tokens equal to a special token or
            // to another regular token resolve to the special / first one: only demanded when unambiguous)
            for (id, t) in vocab.iter().enumerate() {
                if std::str::from_utf8(t).is_ok() && vocab.iter().filter(|x| *x == t).count() == 1 {
                    o.check(t2[id] == Some(id as u32), "token_to_id(get_vocab()[id]) != id");
                }
            }
            let n_reg = b.offset;
            let mut sp_ids: Vec<u32> = vec![tok.pad_token_id()];
            sp_ids.extend(tok.prefix_token_ids());
            sp_ids.extend(tok.suffix_token_ids());
            sp_ids.extend(unk);
            o.check(sp_ids.iter().all(|&i| (i as usize) >= n_reg && (i as usize) < size), "pad/unk/prefix/suffix id outside [regular, vocab_size)");
            if let Kind::Char { .. } = &kind {
                o.check(unk.is_some(), "the unknown token of a character tokenizer has no id in the vocabulary");
            }
            for t in c.tokens.iter().chain([&c.pad]).chain(&c.prefix).chain(&c.suffix) {
                o.check(matches!(tok.token_to_id(t), Some(i) if (i as usize) >= n_reg && (i as usize) < size), "a configured special token has no id among the special ids of the vocabulary");
            }
            // decoding a single regular id yields exactly that token's bytes (when they are UTF-8)
            for id in 0..n_reg.min(vocab.len()) {
                if let Ok(s) = std::str::from_utf8(&vocab[id]) {
                    o.check(matches!(tok.de_tokenize(&[id as u32], false), Ok(d) if d == s), "decoding a single regular id != its token");
                }
            }
            Ok(o)
        }
        _ => Err(format!("unknown op {op}")),
    }
}

/// independent naive BPE: repeatedly merge the lowest-id (leftmost) mergeable adjacent pair
pub fn naive_bpe(table: &HashMap<Vec<u8>, u32>, word: &[u8]) -> Vec<u32> {
    let mut toks: Vec<Vec<u8>> = word.iter().map(|b| vec![*b]).collect();
    loop {
        let mut best: Option<(u32, usize)> = None;
        for i in 0..toks.len().saturating_sub(1) {
            let m = [toks[i].as_slice(), toks[i + 1].as_slice()].concat();
            if let Some(&id) = table.get(&m) {
                if best.map(|(b, _)| id < b).unwrap_or(true) {
                    best = Some((id, i));
                }
            }
        }
        match best {
            Some((_, i)) => {
                let r = toks.remove(i + 1);
                toks[i].extend(r);
            }
            None => break,
        }
    }
    toks.iter().map(|t| if t.len() == 1 { t[0] as u32 } else { 256 + table[t] }).collect()
}

fn exec_bpeword(r: &mut Rd) -> Result<Outcome, String> {
    let table = r.list(|r| Ok((r.bytes()?, r.nat()? as u32)))?;
    let w = r.bytes()?;
    r.end()?;
    let word = String::from_utf8(w.clone()).map_err(|_| "word not utf-8")?;
    if word.chars().any(|c| c.is_whitespace()) {
        return Err("word contains whitespace".into());
    }
    let kind = Kind::Bpe { table: table.clone(), max_vocab: None };
    let c = Common { tokens: vec!["<pad>".into()], pad: "<pad>".into(), prefix: vec![], suffix: vec![] };
    let b = build(&kind, &c, false).ok_or("config")?;
    let ids = b.tok.tokenize(&word, true).map_err(|e| e.to_string())?.token_ids;
    let m: HashMap<Vec<u8>, u32> = table.into_iter().collect();
    let want = naive_bpe(&m, &w);
    let mut v = vec![];
    enc_nats(&mut v, ids.iter().map(|&x| x as u64));
    enc_nats(&mut v, want.iter().map(|&x| x as u64));
    let mut o = Outcome::new(ok(v));
    o.check(ids == want, "C03: token sequence != lowest-id leftmost merge result");
    Ok(o)
}

// ------------------------------------------------------------------------------------------------
// generators

const SPELL: &[&str] = &["<pad>", "<pad", "pad>", "<<pad>>", "<unk>", "<bos>", "<eos>", "<extra_token_1>", "<extra_token_10>", "<a>", "<a>b", "<", ">"];

pub fn tok_text(ctx: &mut Ctx, max: usize, specials: &[String]) -> String {
    let n = ctx.rng.random_range(0..=max);
    let mut s = String::new();
    for _ in 0..n {
        let r = ctx.rng.random_range(0..100);
        if r < 12 && !specials.is_empty() {
            s.push_str(specials.choose(&mut ctx.rng).unwrap());
        } else if r < 20 {
            s.push_str(SPELL[ctx.rng.random_range(0..SPELL.len())]);
        } else if r < 50 {
            s.push(gen::pick(&mut ctx.rng, &gen::LETTERS[..4]));
        } else if r < 62 {
            s.push(' ');
        } else if r < 67 {
            s.push(gen::pick(&mut ctx.rng, gen::WS));
        } else if r < 70 {
            s.push_str("\r\n");
        } else if r < 78 {
            s.push(gen::pick(&mut ctx.rng, gen::MARKS));
        } else if r < 82 {
            s.push('\u{200D}');
        } else if r < 85 {
            s.push(gen::pick(&mut ctx.rng, gen::NON_WS_SPACELIKE));
        } else {
            s.push(gen::pick(&mut ctx.rng, gen::LETTERS));
        }
    }
    s
}

pub fn rand_common(ctx: &mut Ctx, allow_npf: bool) -> Common {
    let mut tokens: Vec<String> = vec!["<unk>".into(), "<bos>".into(), "<eos>".into(), "<pad>".into()];
    let r = ctx.rng.random_range(0..100);
    if r < 25 {
        tokens.push("<sep>".into());
        tokens.push("<mask>".into());
    } else if r < 40 {
        // duplicates, also in FRONT of the first occurrence of later tokens (position in the list != rank among the
        // distinct entries for everything behind the repeat)
        match ctx.rng.random_range(0..3) {
            0 => {
                tokens.push("<bos>".into());
                tokens.insert(1, "<pad>".into());
            }
            1 => tokens = vec!["<pad>".into(), "<unk>".into(), "<pad>".into(), "<bos>".into(), "<eos>".into()],
            _ => {
                let i = ctx.rng.random_range(0..tokens.len() - 1);
                let at = ctx.rng.random_range(i + 1..tokens.len());
                let t = tokens[i].clone();
                tokens.insert(at, t.clone());
                if ctx.rng.random_bool(0.5) {
                    tokens.insert(at, t);
                }
            }
        }
    } else if r < 50 {
        tokens = vec!["<pad>".into()];
    } else if r < 58 {
        tokens.push("[SEP]".into());
        tokens.push("\u{e4}\u{4e2d}".into());
    } else if r < 63 && allow_npf {
        // non-prefix-free stream
        tokens.push("<a>".into());
        tokens.push("<a>b".into());
    } else if r < 66 {
        tokens.push("<extra_token_0>".into());
    } else if r < 78 {
        // spellings that a Unicode normalisation would change (ligature, full-width digit, superscript, decomposed
        // letter): the vocabulary stores them verbatim
        tokens.push("<\u{fb01}n>".into());
        tokens.push(["<\u{ff12}>", "<x\u{b2}>", "<e\u{301}>"][ctx.rng.random_range(0..3)].into());
    } else if r < 84 {
        // a user-supplied list with other names than the default ones (no "<unk>" in it)
        tokens = vec!["<pad>".into(), "<s>".into(), "</s>".into(), "<mask>".into()];
    } else if r < 92 {
        // special tokens that are a single character (Latin-1, other two- and three-byte characters, an emoji): as a
        // string they are one code point, as bytes several
        tokens.push(["\u{a7}", "\u{e9}", "\u{ff}", "\u{80}"][ctx.rng.random_range(0..4)].into());
        tokens.push(["\u{20ac}", "\u{1F600}", "\u{3a9}", "\u{b6}"][ctx.rng.random_range(0..4)].into());
    } else if r < 96 {
        // a list that does not name the unknown token but has entries that CONTAIN its spelling (and one that is
        // contained in it)
        tokens = vec!["<pad>".into(), "<unk>_2".into(), "<bos>".into(), "x<x>".into(), "unk".into()];
    }
    // (half of the time the LAST tokens of the list: the ones behind any repeated entry)
    let pick = |ctx: &mut Ctx, toks: &Vec<String>| if ctx.rng.random_bool(0.5) { toks[toks.len() - 1 - ctx.rng.random_range(0..toks.len().min(2))].clone() } else { toks[ctx.rng.random_range(0..toks.len())].clone() };
    let np = [0, 0, 1, 2, 3][ctx.rng.random_range(0..5)];
    let ns = [0, 0, 1, 2, 3][ctx.rng.random_range(0..5)];
    let prefix = (0..np).map(|_| pick(ctx, &tokens)).collect();
    let suffix = (0..ns).map(|_| pick(ctx, &tokens)).collect();
    let pad = if tokens.contains(&"<pad>".to_string()) { "<pad>".to_string() } else { pick(ctx, &tokens) };
    Common { tokens, pad, prefix, suffix }
}

pub fn emit_tok(ctx: &mut Ctx, op: &str, kind: &Kind, c: &Common, s: &str, ign: bool, g_byte: bool) {
    let mut v = vec![];
    enc_kind(&mut v, kind);
    enc_common(&mut v, c);
    v.push(ign as u64);
    // a constructor that panics is reproduced (and reported) by the exec side under catch_unwind
    match std::panic::catch_unwind(std::panic::AssertUnwindSafe(|| build(kind, c, g_byte))).ok().flatten() {
        Some(b) => {
            let pieces = ref_split(&b.specials, s, ign);
            enc_pieces(&mut v, &pieces, b.g);
        }
        None => v.push(0),
    }
    ctx.case(op, &v);
}

fn emit_detok(ctx: &mut Ctx, op: &str, kind: &Kind, c: &Common, ids: &[u64], ign: bool) {
    let mut v = vec![];
    enc_kind(&mut v, kind);
    enc_common(&mut v, c);
    v.push(ign as u64);
    enc_nats(&mut v, ids.iter().copied());
    ctx.case(op, &v);
}

fn emit_vocab(ctx: &mut Ctx, op: &str, kind: &Kind, c: &Common, margin: u64) {
    let mut v = vec![];
    enc_kind(&mut v, kind);
    enc_common(&mut v, c);
    v.push(margin);
    ctx.case(op, &v);
}

pub const CHARS: &str = "abcdefghijklmnopqrstuvwxyzABCDEFGHIJKLMNOPQRSTUVWXYZ0123456789\"\"!\"#$%&\'()*+,-./:;<=>?@[\\]^_`{|}~\"\" ";

pub fn char_alphabet() -> Vec<u64> {
    let mut a: Vec<u64> = vec![];
    for c in CHARS.chars() {
        if !a.contains(&(c as u64)) {
            a.push(c as u64);
        }
    }
    a
}

fn rand_byte_kind(ctx: &mut Ctx) -> Kind {
    let pad_to = [None, None, Some(1), Some(2), Some(64), Some(128), Some(512)][ctx.rng.random_range(0..7)];
    Kind::Byte { cp_groups: ctx.rng.random_bool(0.5), pad_to }
}

fn rand_char_kind(ctx: &mut Ctx) -> Kind {
    Kind::Char { g: ctx.rng.random_bool(0.5), alphabet: char_alphabet(), unk: if ctx.rng.random_bool(0.8) { "<unk>".into() } else { "<x>".into() } }
}

pub fn run_c01(ctx: &mut Ctx) {
    let n = ctx.budget(1500, 80000);
    for i in 0..n {
        let c = rand_common(ctx, true);
        let byte = i % 2 == 0;
        let kind = if byte { rand_byte_kind(ctx) } else { rand_char_kind(ctx) };
        let g_byte = ctx.rng.random_bool(0.5);
        let specials: Vec<String> = c.tokens.clone();
        let reps = 4;
        for _ in 0..reps {
            let s = if !byte && ctx.rng.random_bool(0.5) {
                // text over the alphabet (round trip stream)
                let n = ctx.rng.random_range(0..12);
                (0..n).map(|_| CHARS.chars().nth(ctx.rng.random_range(0..CHARS.chars().count())).unwrap()).collect()
            } else if i % 100 == 3 {
                // a long text (lengths around powers of two)
                {
                    let maxlen = [1030usize, 4100][ctx.rng.random_range(0..2)];
                    tok_text(ctx, maxlen, &specials)
                }
            } else {
                tok_text(ctx, 10, &specials)
            };
            let ign = ctx.rng.random_bool(0.4);
            // byte tokenizer: g_byte only matters when the text has multi-code-point clusters; the exec side
            // derives it from the request, so only emit the variant that is consistent with that rule
            let multi = clusters(&s, true).iter().any(|c| c.len() > 1);
            emit_tok(ctx, if byte { "bytetok" } else { "chartok" }, &kind, &c, &s, ign, if byte { multi } else { g_byte });
        }
        // malformed / arbitrary id sequences for de_tokenize
        let m = ctx.rng.random_range(0..8);
        let ids: Vec<u64> = (0..m)
            .map(|_| match ctx.rng.random_range(0..10) {
                0..=4 => ctx.rng.random_range(0..128),
                5 => ctx.rng.random_range(128..256),
                6..=8 => ctx.rng.random_range(if byte { 256 } else { 90 }..if byte { 270 } else { 110 }),
                _ => ctx.rng.random_range(0..2000),
            })
            .collect();
        let ign = ctx.rng.random_bool(0.5);
        emit_detok(ctx, if byte { "bytedetok" } else { "chardetok" }, &kind, &c, &ids, ign);
    }
    if ctx.thorough && ctx.first_shard() {
        // exhaustive: all strings of ≤ 4 symbols over a 9-symbol alphabet × 6 configs
        let syms = ["a", "<", ">", "<pad>", "pad", "\u{e4}", "\u{301}", " ", "<unk>"];
        let mut strs: Vec<String> = vec![String::new()];
        let mut frontier: Vec<String> = vec![String::new()];
        for _ in 0..4 {
            let mut next = vec![];
            for s in &frontier {
                for y in syms {
                    next.push(format!("{s}{y}"));
                }
            }
            strs.extend(next.iter().cloned());
            frontier = next;
        }
        let base = Common { tokens: vec!["<unk>".into(), "<bos>".into(), "<eos>".into(), "<pad>".into()], pad: "<pad>".into(), prefix: vec!["<bos>".into()], suffix: vec!["<eos>".into(), "<eos>".into()] };
        let cfgs: Vec<(Kind, bool)> = vec![
            (Kind::Byte { cp_groups: false, pad_to: None }, false),
            (Kind::Byte { cp_groups: true, pad_to: Some(64) }, false),
            (Kind::Char { g: false, alphabet: char_alphabet(), unk: "<unk>".into() }, false),
            (Kind::Char { g: true, alphabet: char_alphabet(), unk: "<unk>".into() }, true),
        ];
        for s in &strs {
            for (k, g) in &cfgs {
                for ign in [false, true] {
                    let byte = matches!(k, Kind::Byte { .. });
                    let multi = clusters(s, true).iter().any(|c| c.len() > 1);
                    emit_tok(ctx, if byte { "bytetok" } else { "chartok" }, k, &base, s, ign, if byte { multi } else { *g });
                }
            }
        }
    }
}

// ---------------------------------- BPE ----------------------------------

/// random well-formed table over `letters` (+ space): every entry is the concatenation of two earlier tokens
/// like `rand_table`, but entries may contain white space anywhere ("b c", "ab "): such a merge never applies (words
/// are split at white space first), yet it is an entry of the vocabulary like any other
pub fn rand_table_ws(ctx: &mut Ctx, letters: &[&str], n: usize) -> Vec<(Vec<u8>, u32)> {
    let mut toks: Vec<Vec<u8>> = vec![];
    for l in letters {
        for b in l.as_bytes() {
            if !toks.contains(&vec![*b]) {
                toks.push(vec![*b]);
            }
        }
    }
    let mut table: Vec<(Vec<u8>, u32)> = vec![];
    let mut tries = 0;
    while table.len() < n && tries < 20 * n + 20 {
        tries += 1;
        let a = toks[ctx.rng.random_range(0..toks.len())].clone();
        let b = toks[ctx.rng.random_range(0..toks.len())].clone();
        let m = [a.as_slice(), b.as_slice()].concat();
        if m.len() > 8 || toks.contains(&m) {
            continue;
        }
        table.push((m.clone(), table.len() as u32));
        toks.push(m);
    }
    table
}

pub fn rand_table(ctx: &mut Ctx, letters: &[&str], n: usize) -> Vec<(Vec<u8>, u32)> {
    let mut toks: Vec<Vec<u8>> = letters.iter().map(|l| l.as_bytes().to_vec()).collect();
    // multi-byte letters are themselves not tokens: start from single bytes
    let mut base: Vec<Vec<u8>> = vec![];
    for t in &toks {
        for b in t {
            if !base.contains(&vec![*b]) {
                base.push(vec![*b]);
            }
        }
    }
    toks = base;
    let mut table: Vec<(Vec<u8>, u32)> = vec![];
    let mut tries = 0;
    while table.len() < n && tries < 20 * n + 20 {
        tries += 1;
        let a = toks[ctx.rng.random_range(0..toks.len())].clone();
        let b = toks[ctx.rng.random_range(0..toks.len())].clone();
        let m = [a.as_slice(), b.as_slice()].concat();
        if m.len() > 8 || toks.contains(&m) {
            continue;
        }
        // a merged token must not have whitespace anywhere but at its start (words are ws-prefixed)
        if m[1..].contains(&b' ') {
            continue;
        }
        table.push((m.clone(), table.len() as u32));
        toks.push(m);
    }
    table
}

/// random binary bracketing of `w`: the merges bottom-up (the last one is `w` itself)
fn bracketing(ctx: &mut Ctx, w: &[u8]) -> Vec<Vec<u8>> {
    if w.len() < 2 {
        return vec![];
    }
    let k = ctx.rng.random_range(1..w.len());
    let mut v = bracketing(ctx, &w[..k]);
    v.extend(bracketing(ctx, &w[k..]));
    v.push(w.to_vec());
    v
}

/// a table in which a word has two derivations: its own entry is learned early through one bracketing, the
/// intermediate tokens of another bracketing are learned later, and that second path is entered first because its
/// first merge has the lowest id — so a LOW-id merge becomes possible only after a HIGH-id merge was applied
pub fn overlap_table(ctx: &mut Ctx) -> (Vec<(Vec<u8>, u32)>, Vec<u8>) {
    let letters = b"abcdef";
    let n = ctx.rng.random_range(4..=6);
    let w: Vec<u8> = letters[..n].to_vec();
    let a = bracketing(ctx, &w);
    let b = bracketing(ctx, &w);
    let mut order: Vec<Vec<u8>> = vec![];
    let mut push = |order: &mut Vec<Vec<u8>>, t: &Vec<u8>| {
        if !order.contains(t) {
            order.push(t.clone());
        }
    };
    if let Some(first) = b.first() {
        push(&mut order, first);
    }
    for t in &a {
        push(&mut order, t);
    }
    for t in &b {
        push(&mut order, t);
    }
    (order.into_iter().enumerate().map(|(i, t)| (t, i as u32)).collect(), w)
}

pub fn adversarial_tables() -> Vec<Vec<(Vec<u8>, u32)>> {
    let t = |l: &[&str]| l.iter().enumerate().map(|(i, s)| (s.as_bytes().to_vec(), i as u32)).collect::<Vec<_>>();
    vec![
        t(&["ab", "cd", "abc", "abcd"]),
        t(&["ab", "bc"]),
        t(&["bc", "ab"]),
        t(&["aa", "aaa", "aaaa"]),
        t(&["aa", "aaaa"]),
        t(&["ab", "abc", "abcd", "abcda"]),
        t(&["bc", "abc", "ab"]),
        t(&["cd", "ab", "abcd"]),
        t(&["ab", "ba", "aba", "bab", "abab"]),
        t(&[" a", " ab", "ab", " abab"]),
        t(&["ab", "cab", "ca"]),
        t(&["bc", "ab", "cd", "abcd"]),
        // a low-id merge (abcd = ab+cd) that becomes possible only after a high-id merge (abc = a+bc)
        t(&["bc", "ab", "cd", "abcd", "abc"]),
        t(&["cd", "ab", "abcd", "bcd", "abc"]),
    ]
}

fn bpe_text(ctx: &mut Ctx, letters: &[&str], max: usize) -> String {
    let n = ctx.rng.random_range(0..=max);
    let mut s = String::new();
    for _ in 0..n {
        let r = ctx.rng.random_range(0..100);
        if r < 70 {
            s.push_str(letters[ctx.rng.random_range(0..letters.len())]);
        } else if r < 88 {
            s.push(' ');
        } else if r < 94 {
            s.push(gen::pick(&mut ctx.rng, gen::WS));
        } else if r < 96 {
            // control characters incl. U+0000 (byte 0 is token id 0)
            s.push(gen::pick(&mut ctx.rng, gen::NON_WS_SPACELIKE));
        } else {
            s.push(gen::pick(&mut ctx.rng, gen::LETTERS));
        }
    }
    s
}

pub fn run_bpe(ctx: &mut Ctx, c03: bool) {
    let letter_sets: [&[&str]; 3] = [&["a", "b", "c", " "], &["a", "b", "c", "d", " "], &["a", "b", "\u{e4}", " "]];
    let mut tables: Vec<(Vec<(Vec<u8>, u32)>, usize)> = vec![];
    if ctx.first_shard() {
        for t in adversarial_tables() {
            tables.push((t, 1));
        }
    }
    // tables produced by the real trainer on corpora over the same letters (rich enough not to be exhausted)
    let n_trained = ctx.budget(6, 300);
    for i in 0..n_trained {
        let ls = (i % 3) as usize;
        let letters = letter_sets[ls];
        let lines: Vec<String> = (0..ctx.rng.random_range(2..=6))
            .map(|_| {
                (0..ctx.rng.random_range(3..=9))
                    .map(|_| (0..ctx.rng.random_range(1..=7)).map(|_| letters[ctx.rng.random_range(0..letters.len() - 1)]).collect::<String>())
                    .collect::<Vec<_>>()
                    .join(" ")
            })
            .collect();
        let n_merges = [4usize, 12, 28, 60][ctx.rng.random_range(0..4)];
        if let Some(t) = crate::props::bpetrain::trained_table(&lines, n_merges, [0u8, 1, 3][ctx.rng.random_range(0..3)]) {
            tables.push((t, ls));
        }
    }
    let nt = ctx.budget(60, 4000);
    for i in 0..nt {
        let ls = (i % 3) as usize;
        let n = ctx.rng.random_range(0..=if i % 5 == 0 { 40 } else { 12 });
        let t = rand_table(ctx, letter_sets[ls], n);
        tables.push((t, ls));
    }
    if c03 {
        // two-derivation tables with the word that has both derivations, and affixed variants
        let n_ov = ctx.budget(40, 3000);
        for _ in 0..n_ov {
            let (t, w) = overlap_table(ctx);
            for variant in 0..3 {
                let mut word = w.clone();
                if variant == 1 {
                    word.insert(0, b'a' + ctx.rng.random_range(0..6));
                } else if variant == 2 {
                    word.push(b'a' + ctx.rng.random_range(0..6));
                }
                let mut v = vec![t.len() as u64];
                for (b, id) in &t {
                    enc_bytes(&mut v, b);
                    v.push(*id as u64);
                }
                enc_bytes(&mut v, &word);
                ctx.case("bpeword", &v);
            }
        }
    }
    // very long single words (a cap on the word length, piece-wise merging of long words): a few per run, the
    // Lean model needs seconds for them
    let mut long_left = if ctx.thorough { 6 } else { 3 };
    for (t, ls) in tables {
        let letters = letter_sets[ls];
        let units: Vec<Vec<u8>> = t.iter().map(|e| e.0.clone()).filter(|b| !b.contains(&b' ')).collect();
        if c03 && long_left > 0 && !units.is_empty() && ctx.rng.random_range(0..4) == 0 {
            long_left -= 1;
            // a repeated unit taken from the table (so that merges chain across the whole word), shifted by a short
            // random prefix; lengths just above 4 KiB / 8 KiB
            let target = if ctx.thorough && long_left % 2 == 0 { 8193 } else { 4097 } + ctx.rng.random_range(0..40);
            let unit = units[ctx.rng.random_range(0..units.len())].clone();
            let mut w: Vec<u8> = (0..ctx.rng.random_range(0..4)).map(|_| letters[ctx.rng.random_range(0..letters.len() - 1)].as_bytes().to_vec()).flatten().collect();
            while w.len() < target {
                w.extend(&unit);
                if ctx.rng.random_range(0..50) == 0 {
                    w.extend(letters[ctx.rng.random_range(0..letters.len() - 1)].as_bytes());
                }
            }
            if std::str::from_utf8(&w).map(|x| !x.chars().any(char::is_whitespace)).unwrap_or(false) {
                let mut v = vec![t.len() as u64];
                for (b, id) in &t {
                    enc_bytes(&mut v, b);
                    v.push(*id as u64);
                }
                enc_bytes(&mut v, &w);
                ctx.case("bpeword", &v);
            }
        }
        if c03 && ctx.rng.random_range(0..3) == 0 {
            // the table in effect under max_vocab_size (also below 256 + number of special tokens: no merge at all)
            let c = Common { tokens: vec!["<unk>".into(), "<bos>".into(), "<eos>".into(), "<pad>".into()], pad: "<pad>".into(), prefix: vec![], suffix: vec![] };
            for mv in [0usize, 100, 256, 259, 260, 261, 260 + t.len() / 2, 260 + t.len()] {
                let kind = Kind::Bpe { table: t.clone(), max_vocab: Some(mv) };
                let s = bpe_text(ctx, letters, 14);
                emit_tok(ctx, "bpetok", &kind, &c, &s, true, false);
            }
        }
        if c03 {
            // words (no whitespace inside; optional leading space as the word splitter produces)
            let reps = if ctx.thorough { 60 } else { 30 };
            for _ in 0..reps {
                let mut w: String = bpe_text(ctx, &letters[..letters.len() - 1], 8).chars().filter(|c| !c.is_whitespace()).collect();
                if w.is_empty() {
                    continue;
                }
                if ctx.rng.random_bool(0.3) {
                    w.insert(0, ' ');
                    // leading space only as first char: the word regex gives "\s+\S+"; tokenise the bare word through the word op
                    w = w.trim_start().to_string();
                }
                let mut v = vec![t.len() as u64];
                for (b, id) in &t {
                    enc_bytes(&mut v, b);
                    v.push(*id as u64);
                }
                enc_bytes(&mut v, w.as_bytes());
                ctx.case("bpeword", &v);
            }
        } else {
            let c = rand_common(ctx, false);
            let max_vocab = match ctx.rng.random_range(0..4) {
                0 => Some(256 + c.tokens.len() + ctx.rng.random_range(0..=t.len() + 2)),
                1 => Some(ctx.rng.random_range(0..300)),
                _ => None,
            };
            let kind = Kind::Bpe { table: t.clone(), max_vocab };
            for _ in 0..12 {
                let s = if ctx.rng.random_bool(0.15) { tok_text(ctx, 8, &c.tokens) } else { bpe_text(ctx, letters, 14) };
                let ign = ctx.rng.random_bool(0.7);
                emit_tok(ctx, "bpetok", &kind, &c, &s, ign, false);
            }
            // long inputs (block-wise / parallel processing would cut words or drop white space at a block border):
            // a few thousand bytes of short words, lengths around powers of two
            if ctx.rng.random_range(0..if ctx.thorough { 4 } else { 6 }) == 0 {
                let target = [1000usize, 4090, 4100, 8195, 12300][ctx.rng.random_range(0..5)] + ctx.rng.random_range(0..9);
                let mut s = String::new();
                while s.len() < target {
                    let l = ctx.rng.random_range(1..=6);
                    for _ in 0..l {
                        s.push_str(letters[ctx.rng.random_range(0..letters.len() - 1)]);
                    }
                    s.push_str(if ctx.rng.random_range(0..10) == 0 { "  " } else { " " });
                }
                let s = s.trim_end().to_string();
                emit_tok(ctx, "bpetok", &kind, &c, &s, true, false);
            }
            let m = ctx.rng.random_range(0..8);
            let hi = 256 + t.len() as u64 + 8;
            let ids: Vec<u64> = (0..m).map(|_| if ctx.rng.random_bool(0.5) { ctx.rng.random_range(0..256) } else { ctx.rng.random_range(250..hi) }).collect();
            let ign = ctx.rng.random_bool(0.5);
            emit_detok(ctx, "bpedetok", &kind, &c, &ids, ign);
        }
    }
    if !c03 && ctx.first_shard() {
        // a well-formed table with an entry that is SPELLED like a configured special token (a corpus whose lines
        // start with "<pad>" trains one), followed by merges with higher ids; the same table under special-token
        // names that do not occur in it
        let tb = |l: &[&str]| l.iter().enumerate().map(|(i, s)| (s.as_bytes().to_vec(), i as u32)).collect::<Vec<_>>();
        for t in [tb(&["<p", "ad", "<pad", "<pad>", "ab", "abc", "ca", "cab"]), tb(&["ab", "<u", "nk", "<unk", "<unk>", "abc", " c", " ca"]), tb(&["<s", "<s>", "bc", "abc"])] {
            for tokens in [vec!["<unk>", "<bos>", "<eos>", "<pad>"], vec!["<pad>"], vec!["<pad>", "<s>", "</s>"], vec!["[PAD]", "<x>"]] {
                let tokens: Vec<String> = tokens.iter().map(|x| x.to_string()).collect();
                let c = Common { pad: tokens.iter().find(|x| x.to_lowercase().contains("pad")).unwrap().clone(), tokens: tokens.clone(), prefix: vec![], suffix: vec![tokens[0].clone()] };
                for max_vocab in [None, Some(256 + t.len() + tokens.len()), Some(256 + 5 + tokens.len())] {
                    let kind = Kind::Bpe { table: t.clone(), max_vocab };
                    for s in ["abc cab", "<pad> abc cab", "x<pad>cab ab", "ab <pad", "<pad>", "<unk> ca abc", "<s> abc", "hello abc <unk>x"] {
                        for ign in [true, false] {
                            emit_tok(ctx, "bpetok", &kind, &c, s, ign, false);
                        }
                    }
                    let hi = 256 + t.len() as u64 + tokens.len() as u64 + 2;
                    let ids: Vec<u64> = (256..hi).collect();
                    for ign in [true, false] {
                        emit_detok(ctx, "bpedetok", &kind, &c, &ids, ign);
                        emit_detok(ctx, "bpedetok", &kind, &c, &[ids[ids.len() / 2], 97, ids[3]], ign);
                    }
                }
            }
        }
    }
    if c03 && ctx.thorough && ctx.first_shard() {
        // exhaustive: all words of length ≤ 6 over {a,b,c} for the adversarial tables and 100 random ones
        let words: Vec<String> = gen::all_strings(&['a', 'b', 'c'], 6).into_iter().filter(|w| !w.is_empty()).collect();
        let mut ts = adversarial_tables();
        for _ in 0..100 {
            let n = ctx.rng.random_range(2..=14);
            ts.push(rand_table(ctx, &["a", "b", "c"], n));
        }
        for t in ts {
            for w in &words {
                let mut v = vec![t.len() as u64];
                for (b, id) in &t {
                    enc_bytes(&mut v, b);
                    v.push(*id as u64);
                }
                enc_bytes(&mut v, w.as_bytes());
                ctx.case("bpeword", &v);
            }
        }
    }
}

pub fn run_c04(ctx: &mut Ctx) {
    if ctx.first_shard() {
        // every tokenizer kind with special-token lists that do / do not contain the unknown token and the default names
        let lists: [&[&str]; 8] = [&["<pad>"], &["<pad>", "<s>", "</s>"], &["<unk>", "<pad>"], &["<pad>", "<unk>", "<bos>", "<eos>"], &["<x>", "<pad>"], &["<\u{fb01}n>", "<pad>", "<unk>", "<\u{ff12}>"],
            // single-character special tokens (one code point, several bytes)
            &["\u{a7}", "<pad>", "\u{20ac}", "\u{e9}", "\u{1F600}"],
            // the empty string as a special token (the constructors accept it: it is an entry like any other)
            &["<x>", "", "<pad>"]];
        for l in lists {
            let tokens: Vec<String> = l.iter().map(|x| x.to_string()).collect();
            let c = Common { tokens: tokens.clone(), pad: "<pad>".into(), prefix: vec![tokens[0].clone()], suffix: vec![] };
            for unk in ["<unk>", "<x>", "<bos>"] {
                for g in [false, true] {
                    emit_vocab(ctx, "charvocab", &Kind::Char { g, alphabet: char_alphabet(), unk: unk.into() }, &c, 300);
                }
            }
            emit_vocab(ctx, "bytevocab", &Kind::Byte { cp_groups: false, pad_to: None }, &c, 300);
            emit_vocab(ctx, "bpevocab", &Kind::Bpe { table: adversarial_tables()[0].clone(), max_vocab: None }, &c, 300);
            // merges that cross a word boundary (white space inside or at the end): they never apply, but they are entries
            let tw = |l: &[&str]| l.iter().enumerate().map(|(i, s)| (s.as_bytes().to_vec(), i as u32)).collect::<Vec<_>>();
            emit_vocab(ctx, "bpevocab", &Kind::Bpe { table: tw(&["ab", " c", "b c", "abc", " d"]), max_vocab: None }, &c, 300);
            emit_vocab(ctx, "bpevocab", &Kind::Bpe { table: tw(&["ab", "ab ", "\u{a0}", "a\u{a0}", "a\u{a0}b", " a"]), max_vocab: Some(256 + 5 + c.tokens.len()) }, &c, 300);
            // merges whose byte strings are characters a normalisation would change: superscript two, the fi ligature
            let t: Vec<(Vec<u8>, u32)> = vec![(vec![0xC2, 0xB2], 0), (vec![0xEF, 0xAC], 1), (vec![0xEF, 0xAC, 0x81], 2), (vec![b'a', 0xC2, 0xB2], 3)];
            emit_vocab(ctx, "bpevocab", &Kind::Bpe { table: t, max_vocab: None }, &c, 300);
        }
    }
    let n = ctx.budget(150, 3000);
    for i in 0..n {
        let c = rand_common(ctx, true);
        let margin = 300;
        match i % 3 {
            0 => {
                let k = rand_byte_kind(ctx);
                emit_vocab(ctx, "bytevocab", &k, &c, margin);
            }
            1 => {
                let k = rand_char_kind(ctx);
                emit_vocab(ctx, "charvocab", &k, &c, margin);
            }
            _ => {
                let ls: &[&str] = &["a", "b", "\u{e4}", " "];
                let nn = ctx.rng.random_range(0..=20);
                let t = if i % 9 == 2 { adversarial_tables()[(i as usize / 9) % 12].clone() } else if i % 9 == 5 { rand_table_ws(ctx, ls, nn) } else { rand_table(ctx, ls, nn) };
                            let max_vocab = match ctx.rng.random_range(0..4) {
                    0 => Some(256 + c.tokens.len() + ctx.rng.random_range(0..=t.len() + 2)),
                    1 => Some(ctx.rng.random_range(0..300)),
                    _ => None,
                };
                let k = Kind::Bpe { table: t, max_vocab };
                emit_vocab(ctx, "bpevocab", &k, &c, margin);
            }
        }
    }
}
