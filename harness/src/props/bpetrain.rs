//! C19 — train_bpe
use crate::ctx::{Ctx, Outcome};
use crate::wire::*;
use rand::Rng;
use std::collections::HashMap;
use std::io::Write;
use text_utils::text::{clean, count_words_whitespace};
use text_utils::tokenization::{train_bpe, verif_train_steps, MergeOps, VerifPairStats};
use text_utils::unicode::{normalize, Normalization};
use text_utils::utils::SerializeMsgPack;

fn tmp() -> String {
    // inside the run directory of this shard (removed by ./check with it); replays fall back to /verif/work
    let d = match std::env::var("TU_HARNESS_TMP") {
        Ok(root) => format!("{root}/bpetrain"),
        Err(_) => format!("/verif/work/bpetrain-{}", std::process::id()),
    };
    std::fs::create_dir_all(&d).ok();
    d
}

/// the word counts train_bpe starts from (mirror of its counting closure)
/// how the corpus lines are spread over files: `nfiles` files of (almost) equal size, each read up to
/// `max_lines_per_file` lines (0 = no limit, k + 1 = Some(k))
#[derive(Clone, Copy, PartialEq)]
pub struct Layout {
    pub nfiles: u64,
    pub maxl: u64,
}

fn chunks(lines: &[String], lay: Layout) -> Vec<Vec<String>> {
    let nf = lay.nfiles.max(1) as usize;
    let per = lines.len().div_ceil(nf).max(1);
    let mut v: Vec<Vec<String>> = lines.chunks(per).map(|c| c.to_vec()).collect();
    while v.len() < nf {
        v.push(vec![]);
    }
    v
}

/// the lines train_bpe actually reads: the first max_lines_per_file lines of EVERY file
fn used_lines(lines: &[String], lay: Layout) -> Vec<String> {
    chunks(lines, lay).into_iter().flat_map(|c| if lay.maxl == 0 { c } else { c.into_iter().take(lay.maxl as usize - 1).collect() }).collect()
}

/// a corpus line that is written to the file as bytes that are not valid UTF-8: the reader skips it, but it is one
/// of the first `max_lines_per_file` lines of its file
pub const UNDECODABLE: &str = "\u{1}undecodable";

fn word_counts(lines: &[String], norm: bool, lay: Layout) -> Vec<(Vec<u8>, u64)> {
    let lines = &used_lines(lines, lay);
    let mut m: HashMap<String, u64> = HashMap::new();
    for l in lines.iter().filter(|l| l.as_str() != UNDECODABLE) {
        let mut line = clean(l, true);
        if norm {
            line = normalize(&line, Normalization::NFKC, true);
        }
        for (w, c) in count_words_whitespace(&line, true) {
            *m.entry(w.to_string()).or_insert(0) += c as u64;
        }
    }
    let mut v: Vec<(Vec<u8>, u64)> = m.into_iter().map(|(w, c)| (w.into_bytes(), c)).collect();
    v.sort();
    v
}

/// a table produced by the real trainer (also used by the C02 / C03 / C04 generators)
pub fn trained_table(lines: &[String], n_merges: usize, threads: u8) -> Option<Vec<(Vec<u8>, u32)>> {
    std::panic::catch_unwind(|| train(lines, n_merges, false, threads, Layout { nfiles: 1, maxl: 0 }).ok()).ok().flatten()
}

fn train(lines: &[String], n_merges: usize, norm: bool, threads: u8, lay: Layout) -> Result<Vec<(Vec<u8>, u32)>, String> {
    let dir = tmp();
    let mut paths = vec![];
    for (k, chunk) in chunks(lines, lay).iter().enumerate() {
        let p = format!("{dir}/corpus-{k}.txt");
        let mut f = std::fs::File::create(&p).map_err(|e| e.to_string())?;
        for l in chunk {
            if l == UNDECODABLE {
                f.write_all(&[0xff, 0xfe, b'a', b'b', b' ', b'a', b'b', b'\n']).map_err(|e| e.to_string())?;
            } else {
                writeln!(f, "{l}").map_err(|e| e.to_string())?;
            }
        }
        paths.push(p);
    }
    // vocab_size must be a multiple of 64: choose num_special_tokens so that exactly n_merges merges are requested
    let vocab_size = 384usize;
    let num_special = vocab_size - 256 - n_merges;
    let out = format!("{dir}/merges.bin");
    train_bpe(&paths, vocab_size, num_special, &out, if lay.maxl == 0 { None } else { Some(lay.maxl as usize - 1) }, if norm { Some(Normalization::NFKC) } else { None }, threads, false).map_err(|e| e.to_string())?;
    let m = MergeOps::load(&out).map_err(|e| e.to_string())?;
    let mut t: Vec<(Vec<u8>, u32)> = m.into_iter().collect();
    t.sort_by_key(|e| e.1);
    Ok(t)
}

/// independent greedy recount
fn oracle_greedy(words: &[(Vec<u8>, u64)], n: usize, table: &[(Vec<u8>, u32)]) -> Result<(), String> {
    let mut corpus: Vec<(Vec<Vec<u8>>, u64)> = words.iter().map(|(w, c)| (w.iter().map(|b| vec![*b]).collect(), *c)).collect();
    let freqs = |corpus: &Vec<(Vec<Vec<u8>>, u64)>| {
        let mut f: HashMap<(Vec<u8>, Vec<u8>), u64> = HashMap::new();
        for (w, c) in corpus {
            for i in 1..w.len() {
                *f.entry((w[i - 1].clone(), w[i].clone())).or_insert(0) += c;
            }
        }
        f
    };
    if table.len() > n {
        return Err("more merges than requested".into());
    }
    for (i, (bytes, id)) in table.iter().enumerate() {
        if *id as usize != i {
            return Err(format!("merge ids are not 0..n-1 (position {i} has id {id})"));
        }
        let f = freqs(&corpus);
        let max = f.values().copied().max().unwrap_or(0);
        let cands: Vec<&(Vec<u8>, Vec<u8>)> = f.iter().filter(|(p, c)| **c == max && [p.0.as_slice(), p.1.as_slice()].concat() == *bytes).map(|(p, _)| p).collect();
        if max == 0 || cands.is_empty() {
            let occurs = f.iter().any(|(p, c)| *c > 0 && [p.0.as_slice(), p.1.as_slice()].concat() == *bytes);
            return Err(if occurs { format!("entry {i} is not a pair of maximal frequency") } else { format!("entry {i} is a pair that does not occur") });
        }
        let (x, y) = cands[0].clone();
        for (w, _) in corpus.iter_mut() {
            let mut nw: Vec<Vec<u8>> = vec![];
            for s in w.iter() {
                if let Some(last) = nw.last_mut() {
                    if *last == x && *s == y {
                        last.extend(s);
                        continue;
                    }
                }
                nw.push(s.clone());
            }
            *w = nw;
        }
    }
    if table.len() < n && freqs(&corpus).values().any(|c| *c > 0) {
        return Err("training stopped although a pair still occurs".into());
    }
    Ok(())
}

fn enc_stats(v: &mut Vec<u64>, st: &VerifPairStats) {
    v.push(st.len() as u64);
    for ((a, b), f, ws) in st {
        enc_bytes(v, a);
        enc_bytes(v, b);
        v.push(*f as u64);
        v.push(ws.len() as u64);
        for (i, o) in ws {
            v.push(*i as u64);
            v.push(*o as u64);
        }
    }
}

/// the observation part of a `trainsteps` request: initial statistics, then per merge the pair, the statistics and
/// the vocabulary
fn enc_steps(v: &mut Vec<u64>, words: &[(Vec<u8>, u64)], n: usize) -> Result<(), String> {
    let w: Vec<(Vec<u8>, usize)> = words.iter().map(|(b, c)| (b.clone(), *c as usize)).collect();
    let (init, steps) = verif_train_steps(&w, n).map_err(|e| e.to_string())?;
    enc_stats(v, &init);
    v.push(steps.len() as u64);
    for ((a, b), st, vocab) in &steps {
        enc_bytes(v, a);
        enc_bytes(v, b);
        enc_stats(v, st);
        v.push(vocab.len() as u64);
        for word in vocab {
            v.push(word.len() as u64);
            for t in word {
                enc_bytes(v, t);
            }
        }
    }
    Ok(())
}

/// recount of all adjacent pairs of a segmented corpus: (frequency, per-word occurrences)
fn recount(vocab: &[Vec<Vec<u8>>], counts: &[u64]) -> HashMap<(Vec<u8>, Vec<u8>), (u64, HashMap<usize, usize>)> {
    let mut f: HashMap<(Vec<u8>, Vec<u8>), (u64, HashMap<usize, usize>)> = HashMap::new();
    for (idx, w) in vocab.iter().enumerate() {
        for i in 1..w.len() {
            let e = f.entry((w[i - 1].clone(), w[i].clone())).or_insert((0, HashMap::new()));
            e.0 += counts[idx];
            *e.1.entry(idx).or_insert(0) += 1;
        }
    }
    f
}

fn exec_steps(a: &[u64]) -> Result<Outcome, String> {
    // request: n, word counts, then the observation of the generating run (for the model); this run's steps are
    // judged by the oracle: after every merge the incremental statistics must equal a recount of the corpus
    let mut r = Rd::new(a);
    let n = r.usize()?;
    let words: Vec<(Vec<u8>, u64)> = r.list(|r| Ok((r.bytes()?, r.nat()?)))?;
    let w: Vec<(Vec<u8>, usize)> = words.iter().map(|(b, c)| (b.clone(), *c as usize)).collect();
    let counts: Vec<u64> = words.iter().map(|x| x.1).collect();
    let (init, steps) = verif_train_steps(&w, n).map_err(|e| e.to_string())?;
    let mut o = Outcome::new("accept".to_string());
    let check = |o: &mut Outcome, st: &VerifPairStats, vocab: &[Vec<Vec<u8>>], at: &str| {
        let want = recount(vocab, &counts);
        for ((a, b), f, ws) in st {
            let (wf, wws) = want.get(&(a.clone(), b.clone())).cloned().unwrap_or((0, HashMap::new()));
            o.check(*f as u64 == wf, &format!("C19: incremental pair frequency != recount {at}"));
            o.check(ws.iter().all(|(i, occ)| wws.get(i).copied().unwrap_or(0) == *occ) && wws.iter().all(|(i, occ)| ws.iter().any(|(j, o2)| j == i && o2 == occ)), &format!("C19: per-word occurrence counters != recount {at}"));
        }
        o.check(want.keys().all(|p| st.iter().any(|e| e.0 == *p)), &format!("C19: a pair that occurs has no statistics entry {at}"));
    };
    let vocab0: Vec<Vec<Vec<u8>>> = words.iter().map(|(b, _)| b.iter().map(|x| vec![*x]).collect()).collect();
    check(&mut o, &init, &vocab0, "before the first merge");
    let mut prev = vocab0;
    for (k, ((a, b), st, vocab)) in steps.iter().enumerate() {
        let want = recount(&prev, &counts);
        let max = want.values().map(|x| x.0).max().unwrap_or(0);
        o.check(max > 0 && want.get(&(a.clone(), b.clone())).map(|x| x.0) == Some(max), &format!("C19: merge {k} is not a pair of positive maximal frequency"));
        check(&mut o, st, vocab, &format!("after merge {k}"));
        prev = vocab.clone();
    }
    if steps.len() < n {
        o.check(recount(&prev, &counts).values().all(|x| x.0 == 0), "C19: training stopped although a pair still occurs");
    }
    Ok(o)
}

pub fn exec(op: &str, a: &[u64]) -> Result<Outcome, String> {
    if op == "trainsteps" {
        return exec_steps(a);
    }
    if op != "trainbpe" {
        return Err(format!("unknown op {op}"));
    }
    // request: n, normalisation flag, thread count, raw corpus lines, word counts (what the model works on), written table
    let mut r = Rd::new(a);
    let n = r.usize()?;
    let norm = r.bool()?;
    let threads = r.nat()? as u8;
    let lay = Layout { nfiles: r.nat()?, maxl: r.nat()? };
    let lines: Vec<String> = r.list(|r| r.string())?;
    let words: Vec<(Vec<u8>, u64)> = r.list(|r| Ok((r.bytes()?, r.nat()?)))?;
    let table_req: Vec<(Vec<u8>, u32)> = r.list(|r| Ok((r.bytes()?, r.nat()? as u32)))?;
    r.end()?;
    if word_counts(&lines, norm, lay) != words {
        return Err("word counts in request differ from the corpus".into());
    }
    let table = train(&lines, n, norm, threads, lay)?;
    let mut o = Outcome::new("accept".to_string());
    // tie-breaking among equally frequent pairs depends on hash order: the generating run's table (in the
    // request) is judged by the model; this run's table by the oracle
    let _ = table_req;
    if let Err(e) = oracle_greedy(&words, n, &table) {
        o.check(false, &format!("C19: {e}"));
    }
    // a tokenizer built from the written table is lossless and vocabulary-consistent (C02 / C04 on this table)
    {
        use crate::props::tok::{build, Common, Kind};
        use text_utils::tokenization::Tokenize;
        let common = Common { tokens: vec!["<unk>".into(), "<bos>".into(), "<eos>".into(), "<pad>".into()], pad: "<pad>".into(), prefix: vec!["<bos>".into()], suffix: vec!["<eos>".into()] };
        match std::panic::catch_unwind(|| build(&Kind::Bpe { table: table.clone(), max_vocab: None }, &common, false)) {
            Ok(Some(b)) => {
                o.check(b.tok.vocab_size() == 256 + table.len() + 4, "C19: vocabulary of a tokenizer built from the table != 256 + merges + special tokens");
                for l in &lines {
                    let want = l.trim_end();
                    match b.tok.tokenize(l, true) {
                        Ok(t) => {
                            o.check(t.token_ids.iter().all(|id| (*id as usize) < b.tok.vocab_size()), "C19: a tokenizer built from the table emits an id outside its vocabulary");
                            o.check(matches!(b.tok.de_tokenize(&t.token_ids, true), Ok(ref d) if d == want), "C19: a tokenizer built from the table is not lossless on the corpus");
                        }
                        Err(_) => o.check(false, "C19: a tokenizer built from the table cannot tokenize the corpus"),
                    }
                }
            }
            _ => o.check(false, "C19: no tokenizer can be built from the written table"),
        }
    }
    for t in [0u8, 1, 3] {
        if t != threads {
            match train(&lines, n, norm, t, lay) {
                Ok(t2) => {
                    if let Err(e) = oracle_greedy(&words, n, &t2) {
                        o.check(false, &format!("C19 (threads={t}): {e}"));
                    }
                }
                Err(_) => o.check(false, "train_bpe failed for another thread count"),
            }
        }
    }
    Ok(o)
}

pub fn run_c19(ctx: &mut Ctx) {
    let n_cases = ctx.budget(300, 6000);
    for i in 0..n_cases {
        let alpha: &[&str] = match i % 4 {
            0 => &["a"],
            1 => &["a", "b"],
            2 => &["a", "b", "c"],
            _ => &["a", "b", "\u{e4}"],
        };
        let nl = ctx.rng.random_range(0..=4);
        let lines: Vec<String> = (0..nl)
            .map(|_| {
                let nw = ctx.rng.random_range(0..=4);
                (0..nw)
                    .map(|_| {
                        // long words over one or two letters: several levels of merges of the same pair (aa, aaaa, abab)
                        let l = if ctx.rng.random_range(0..5) == 0 { ctx.rng.random_range(6..=12) } else { ctx.rng.random_range(1..=5) };
                        (0..l).map(|_| alpha[ctx.rng.random_range(0..alpha.len())]).collect::<String>()
                    })
                    .collect::<Vec<_>>()
                    .join(" ")
            })
            .collect();
        // lines that are a single character after cleaning (one code point, but for a multi-byte one several byte
        // pairs), alone or repeated so often that their pairs are the most frequent ones; blank lines
        let mut lines = lines;
        if i % 3 == 1 {
            let ch = ["\u{e4}", "\u{20ac}", "\u{1F600}", "a", "\u{e9}"][ctx.rng.random_range(0..5)];
            for _ in 0..ctx.rng.random_range(1..=6) {
                let l = match ctx.rng.random_range(0..4) { 0 => format!("  {ch}\t"), 1 => String::new(), _ => ch.to_string() };
                let at = ctx.rng.random_range(0..=lines.len());
                lines.insert(at, l);
            }
        }
        // spacing diacritics inside words: their compatibility decomposition starts with a space, so cleaning before
        // and after the normalisation are different things
        if i % 7 == 4 {
            let w = ["a\u{b4}b", "a\u{a8}b", "b\u{b8}", "ab\u{2dd}a"][ctx.rng.random_range(0..4)];
            for _ in 0..ctx.rng.random_range(1..=3) {
                let at = ctx.rng.random_range(0..=lines.len());
                lines.insert(at, if ctx.rng.random_bool(0.5) { w.to_string() } else { format!("ab {w} {w}") });
            }
        }
        // lines that are not valid UTF-8 (skipped by the reader, but counted by max_lines_per_file)
        let undecodable = i % 5 == 2;
        if undecodable {
            for _ in 0..ctx.rng.random_range(1..=2) {
                let at = ctx.rng.random_range(0..=lines.len());
                lines.insert(at, UNDECODABLE.to_string());
            }
        }
        let n = [0usize, 1, 2, 4, 60, 124, 128][ctx.rng.random_range(0..7)];
        let norm = ctx.rng.random_bool(0.5);
        // the same word in two spellings that the normalisation unifies, on one line (a with diaeresis precomposed
        // and decomposed; the fi ligature): their counts must add up
        let lines: Vec<String> = if i % 4 == 3 {
            lines
                .into_iter()
                .map(|l| {
                    let extra: Vec<String> = l.split(' ').filter(|w| w.contains('\u{e4}') && ctx.rng.random_bool(0.6)).map(|w| w.replace('\u{e4}', "a\u{308}")).collect();
                    if extra.is_empty() { l } else { format!("{l} {}", extra.join(" ")) }
                })
                .collect()
        } else if i % 16 == 2 {
            lines.into_iter().map(|l| if l.contains("ab") { format!("{l} \u{fb01} fi fi\u{fb01}") } else { l }).collect()
        } else {
            lines
        };
        let threads = [0u8, 1, 3][ctx.rng.random_range(0..3)];
        // one file and no limit for half of the corpora; otherwise 2-3 files and / or max_lines_per_file
        let lay = if ctx.rng.random_bool(0.5) && !undecodable { Layout { nfiles: 1, maxl: 0 } } else { Layout { nfiles: ctx.rng.random_range(1..=3), maxl: ctx.rng.random_range(if undecodable { 2 } else { 0 }..=4) } };
        let words = word_counts(&lines, norm, lay);
        let mut v = vec![n as u64, norm as u64, threads as u64, lay.nfiles, lay.maxl, lines.len() as u64];
        for l in &lines {
            enc_str(&mut v, l);
        }
        v.push(words.len() as u64);
        for (w, c) in &words {
            enc_bytes(&mut v, w);
            v.push(*c);
        }
        match train(&lines, n, norm, threads, lay) {
            Ok(t) => {
                v.push(t.len() as u64);
                for (b, id) in &t {
                    enc_bytes(&mut v, b);
                    v.push(*id as u64);
                }
            }
            Err(_) => v.push(0),
        }
        ctx.case("trainbpe", &v);
        // the trainer's internal state after every merge (hook verif_train_steps)
        let mut v = vec![n as u64, words.len() as u64];
        for (w, c) in &words {
            enc_bytes(&mut v, w);
            v.push(*c);
        }
        let base = v.len();
        if std::panic::catch_unwind(std::panic::AssertUnwindSafe(|| enc_steps(&mut v, &words, n))).map(|r| r.is_err()).unwrap_or(true) {
            v.truncate(base);
            v.extend([0, 0]);
        }
        ctx.case("trainsteps", &v);
    }
    std::fs::remove_dir_all(tmp()).ok();
}
