//! C20 — Dictionary::create / save / load / get_closest
use crate::ctx::{Ctx, Outcome};
use crate::wire::*;
use rand::Rng;
use std::collections::HashMap;
use std::io::Write;
use text_utils::dictionary::{Dictionary, DictionaryDistanceMeasure};
use text_utils::edit::distance;
use text_utils::text::{clean, split_words};
use text_utils::unicode::{normalize, CharString, Normalization};

fn tmp() -> String {
    // inside the run directory of this shard (removed by ./check with it); replays fall back to /verif/work
    let d = match std::env::var("TU_HARNESS_TMP") {
        Ok(root) => format!("{root}/dict"),
        Err(_) => format!("/verif/work/dict-{}", std::process::id()),
    };
    std::fs::create_dir_all(&d).ok();
    d
}

fn is_alphabetic(s: &str) -> bool {
    s.chars().all(char::is_alphabetic)
}

fn is_punctuation(s: &str) -> bool {
    regex::Regex::new(r"^\p{P}+$").unwrap().is_match(s)
}

/// the tokens `Dictionary::create` counts for one line (cleaned, NFKC-normalised word parts, or character n-grams)
pub fn line_tokens(line: &str, mode: u64) -> Vec<String> {
    let line = normalize(&clean(line, true), Normalization::NFKC, true);
    if mode == 0 {
        split_words(&line).into_iter().filter_map(|(_, parts)| parts).flat_map(|parts| parts.into_iter().map(|(s, _)| s.to_string())).collect()
    } else {
        let grams = mode as usize;
        split_words(&line)
            .into_iter()
            .flat_map(|(word, _)| {
                let mut chars: Vec<&str> = vec![];
                if grams > 1 {
                    chars.push("<bow>");
                }
                chars.extend(CharString::split(word, true));
                if grams > 1 {
                    chars.push("<eow>");
                }
                chars
                    .windows(grams)
                    .filter(|w| {
                        let s = w[w.len() / 2];
                        is_alphabetic(s) || is_punctuation(s)
                    })
                    .map(|w| w.join(" "))
                    .collect::<Vec<_>>()
            })
            .collect()
    }
}

fn write_files(lines: &[String], nfiles: usize) -> Vec<String> {
    let dir = tmp();
    let mut paths = vec![];
    let per = lines.len().div_ceil(nfiles.max(1)).max(1);
    for (k, chunk) in lines.chunks(per).enumerate() {
        let p = format!("{dir}/corpus-{k}.txt");
        let mut f = std::fs::File::create(&p).unwrap();
        for l in chunk {
            writeln!(f, "{l}").unwrap();
        }
        paths.push(p);
    }
    if paths.is_empty() {
        let p = format!("{dir}/corpus-0.txt");
        std::fs::File::create(&p).unwrap();
        paths.push(p);
    }
    paths
}

fn create(lines: &[String], ms: Option<usize>, mq: Option<usize>, threads: u8, mode: u64) -> anyhow::Result<Dictionary> {
    let paths = write_files(lines, 2);
    Dictionary::create(&paths, ms, mq, threads, mode != 0, if mode == 0 { 1 } else { mode as u8 }, false)
}

fn items(d: &Dictionary) -> Vec<(String, usize)> {
    let mut v: Vec<(String, usize)> = d.items().map(|(k, v)| (k.clone(), *v)).collect();
    v.sort();
    v
}

pub fn exec(op: &str, a: &[u64]) -> Result<Outcome, String> {
    let mut r = Rd::new(a);
    match op {
        "dictcreate" => {
            let ms = r.opt(|r| r.usize())?;
            let mq = r.opt(|r| r.usize())?;
            let threads = r.nat()? as u8;
            let mode = r.nat()?;
            let lines: Vec<(String, Vec<Vec<u8>>)> = r.list(|r| Ok((r.string()?, r.list(|r| r.bytes())?)))?;
            // the dictionary observed by the generating run is for the model (which of several equally frequent tokens
            // survive the max_size cut is not fixed by the property); this run's dictionary is judged by the oracle
            let _obs = r.opt(|r| Ok((r.nat()?, r.list(|r| Ok((r.bytes()?, r.nat()?)))?)))?;
            r.end()?;
            let raw: Vec<String> = lines.iter().map(|l| l.0.clone()).collect();
            for (l, toks) in &lines {
                let want: Vec<Vec<u8>> = line_tokens(l, mode).into_iter().map(|t| t.into_bytes()).collect();
                if *toks != want {
                    return Err("tokens in request are not the tokens of the line".into());
                }
            }
            let d = match create(&raw, ms, mq, threads, mode) {
                Ok(d) => d,
                Err(_) => return Ok(Outcome::new(err("create"))),
            };
            let it = items(&d);
            let mut o = Outcome::new("accept".to_string());
            // oracle: independent count
            let used = mq.unwrap_or(usize::MAX).min(raw.len());
            let mut counts: HashMap<String, usize> = HashMap::new();
            for l in &raw[..used] {
                for t in line_tokens(l, mode) {
                    *counts.entry(t).or_insert(0) += 1;
                }
            }
            o.check(it.iter().all(|(k, f)| counts.get(k) == Some(f)), "an entry does not have the frequency of the token in the first max_sequences lines");
            o.check(it.len() == ms.unwrap_or(usize::MAX).min(counts.len()), "number of entries != min(max_size, number of distinct tokens)");
            let min_kept = it.iter().map(|x| x.1).min().unwrap_or(usize::MAX);
            o.check(counts.iter().all(|(k, f)| it.iter().any(|x| &x.0 == k) || *f <= min_kept), "an omitted token is more frequent than a kept one");
            o.check(d.freq_sum == it.iter().map(|x| x.1).sum::<usize>(), "freq_sum is not the total of the kept frequencies");
            // the accessors agree with the entries
            o.check(d.len() == it.len() && d.is_empty() == it.is_empty(), "len() is not the number of entries");
            o.check(it.iter().all(|(k, f)| d.contains(k) && d.get(k) == Some((*f, *f as f64 / d.freq_sum as f64))), "get(key) is not (frequency, frequency / freq_sum) of the entry");
            o.check(!d.contains("\u{1}no such key\u{1}") && d.get("\u{1}no such key\u{1}").is_none(), "get / contains find a key that is not an entry");
            for t in [0u8, 1, 4] {
                if t != threads {
                    match create(&raw, ms, mq, t, mode) {
                        Ok(d2) => o.check(items(&d2) == it && d2.freq_sum == d.freq_sum, "result differs between worker-thread counts"),
                        Err(_) => o.check(false, "create failed for another thread count"),
                    }
                }
            }
            // save / load
            let p = format!("{}/saved.tsv", tmp());
            match d.save(&p).and_then(|_| Dictionary::load(&p)) {
                Ok(d3) => o.check(items(&d3) == it && d3.freq_sum == d.freq_sum, "load(save(d)) != d"),
                Err(_) => o.check(false, "save / load failed"),
            }
            Ok(o)
        }
        "closest" => {
            let norm = r.bool()?;
            let qt = r.text()?;
            let es: Vec<(Vec<Vec<u64>>, usize)> = r.list(|r| Ok((r.text()?, r.usize()?)))?;
            let obs = r.opt(|r| r.usize())?;
            // the query as the caller spells it (the code normalises it; the model gets the normalised form)
            let q_raw = r.string()?;
            r.end()?;
            let q = text_to_string(&qt)?;
            if clusters(&normalize(&q_raw, Normalization::NFKC, true), true) != qt {
                return Err("query in request is not the NFKC form of the raw query, segmented as the code does".into());
            }
            let keys: Vec<String> = es.iter().map(|e| text_to_string(&e.0)).collect::<Result<_, _>>()?;
            for (k, e) in keys.iter().zip(&es) {
                if clusters(k, true) != e.0 {
                    return Err("key segmentation differs".into());
                }
            }
            // build the dictionary through save-format + load
            let p = format!("{}/closest.tsv", tmp());
            {
                let mut f = std::fs::File::create(&p).map_err(|e| e.to_string())?;
                for (k, e) in keys.iter().zip(&es) {
                    writeln!(f, "{k}\t{}", e.1).map_err(|e| e.to_string())?;
                }
            }
            let d = Dictionary::load(&p).map_err(|e| e.to_string())?;
            let m = if norm { DictionaryDistanceMeasure::NormalizedEditDistance } else { DictionaryDistanceMeasure::EditDistance };
            let res = d.get_closest(&q_raw, m);
            let got_idx = res.as_ref().and_then(|(t, _, _)| keys.iter().position(|k| k == t));
            // among entries with equal distance and equal frequency the choice depends on the hash order of this
            // Dictionary instance: the request's observation (from the generating run) is judged by the model,
            // this run's observation by the oracle below
            let _ = (got_idx, obs);
            let mut o = Outcome::new(match &res {
                Some((_, f, _)) => ok([*f as u64]),
                None => "ok none".to_string(),
            });
            o.check(res.is_none() || got_idx.is_some(), "get_closest returned a term that is not an entry of the dictionary");
            o.check(res.is_some() || keys.is_empty(), "get_closest found nothing in a dictionary that has entries");
            if let Some((t, f, _)) = &res {
                let dist = |k: &str| distance(&q, k, true, false, false, norm);
                let dmin = keys.iter().map(|k| dist(k)).fold(f64::INFINITY, f64::min);
                o.check(dist(t) == dmin, "get_closest did not return an entry at minimal edit distance");
                let fmax = keys.iter().zip(&es).filter(|(k, _)| dist(k) == dmin).map(|(_, e)| e.1).max().unwrap_or(0);
                o.check(*f == fmax, "get_closest did not return the most frequent among the closest entries");
            } else {
                o.check(keys.is_empty(), "get_closest returned None on a non-empty dictionary");
            }
            Ok(o)
        }
        "dictload" => {
            let bytes = r.bytes()?;
            let cps = r.nats()?;
            r.end()?;
            match std::str::from_utf8(&bytes) {
                Ok(t) => {
                    if t.chars().map(|c| c as u64).collect::<Vec<_>>() != cps {
                        return Err("code points in request are not the decoding of the bytes".into());
                    }
                }
                Err(_) => {
                    if !cps.is_empty() {
                        return Err("code points given for a file that is not UTF-8".into());
                    }
                }
            }
            let p = format!("{}/load.tsv", tmp());
            std::fs::write(&p, &bytes).map_err(|e| e.to_string())?;
            let d = match Dictionary::load(&p) {
                Ok(d) => d,
                Err(_) => return Ok(Outcome::new(err("load"))),
            };
            let it = items(&d);
            let mut v = vec![d.freq_sum as u64, it.len() as u64];
            for (k, f) in &it {
                enc_str(&mut v, k);
                v.push(*f as u64);
            }
            let mut o = Outcome::new(ok(v));
            o.check(d.len() == it.len(), "len() is not the number of entries");
            o.check(d.freq_sum == it.iter().map(|x| x.1).sum::<usize>(), "freq_sum is not the total of the frequencies");
            save_load_oracle(&mut o, &d, &it);
            Ok(o)
        }
        "dictsave" => {
            // entries (distinct keys) and the file a save of that dictionary produced in the generating run; the
            // order among equally frequent entries is the hash order of that object, so the recorded file is
            // judged by the model and this run's own save by the oracle
            let es: Vec<(String, usize)> = r.list(|r| Ok((r.string()?, r.usize()?)))?;
            let _file = r.nats()?;
            r.end()?;
            let p = format!("{}/resave-src.tsv", tmp());
            {
                let mut f = std::fs::File::create(&p).map_err(|e| e.to_string())?;
                for (k, v) in &es {
                    writeln!(f, "{k}\t{v}").map_err(|e| e.to_string())?;
                }
            }
            let d = Dictionary::load(&p).map_err(|e| e.to_string())?;
            let it = items(&d);
            let mut want = es.clone();
            want.sort();
            if it != want {
                return Err("entries of the request cannot be loaded as a dictionary".into());
            }
            let mut o = Outcome::new("accept".to_string());
            save_load_oracle(&mut o, &d, &it);
            Ok(o)
        }
        _ => Err(format!("unknown op {op}")),
    }
}

/// the saved text of a dictionary
fn saved_text(d: &Dictionary) -> Result<Vec<u8>, String> {
    let p = format!("{}/saved.tsv", tmp());
    d.save(&p).map_err(|e| e.to_string())?;
    std::fs::read(&p).map_err(|e| e.to_string())
}

/// C20: save followed by load reproduces the dictionary; the file has one `key<TAB>value` line per entry, most
/// frequent first
fn save_load_oracle(o: &mut Outcome, d: &Dictionary, it: &[(String, usize)]) {
    let p = format!("{}/saved.tsv", tmp());
    match d.save(&p).and_then(|_| Dictionary::load(&p)) {
        Ok(d3) => o.check(items(&d3) == it && d3.freq_sum == d.freq_sum, "load(save(d)) != d"),
        Err(_) => o.check(false, "save / load failed"),
    }
    if let Ok(text) = std::fs::read_to_string(&p) {
        let mut lines: Vec<&str> = text.split('\n').collect();
        o.check(lines.pop() == Some(""), "saved file does not end with a line feed");
        let mut want: Vec<String> = it.iter().map(|(k, v)| format!("{k}\t{v}")).collect();
        let mut got: Vec<String> = lines.iter().map(|l| l.to_string()).collect();
        let vals: Vec<usize> = got.iter().filter_map(|l| l.rsplit('\t').next().and_then(|x| x.parse().ok())).collect();
        o.check(vals.len() == got.len() && vals.windows(2).all(|w| w[0] >= w[1]), "saved entries are not in descending frequency");
        want.sort();
        got.sort();
        o.check(want == got, "saved lines are not exactly the entries");
    } else {
        o.check(false, "saved file is not UTF-8");
    }
}

// incl. characters whose NFKC form contains a space (U+00A8, U+00B4) and a lone combining mark: cleaning and
// normalising do not commute on them
const WORDS: &[&str] = &["a", "ab", "b", "ba", "abc", "c", "A", "\u{e4}b", "a-b", "x.", "don't", "1a", "\u{4e2d}", "x\u{a8}y", "\u{301}b", "\u{b4}", "a\u{301}", "#", "#a", "a#b", "//", ";x"];

fn rand_line(ctx: &mut Ctx) -> String {
    let n = ctx.rng.random_range(0..=6);
    let mut s = String::new();
    for i in 0..n {
        if i > 0 {
            s.push_str(if ctx.rng.random_bool(0.8) { " " } else { "  " });
        }
        s.push_str(WORDS[ctx.rng.random_range(0..WORDS.len())]);
    }
    s
}

fn rand_dict_file(ctx: &mut Ctx) -> Vec<u8> {
    const KEYS: &[&str] = &["a", "ab", "b", "\u{e4}b", "a b", "<bow> a b", "a ", "a\u{a0}", "x\ry", "\u{4e2d}", "don't", "A", "c", "d", "e"];
    const VALS: &[&str] = &["1", "2", "2", "3", "10", "0", "+3", "007", "4294967296"];
    const BADVALS: &[&str] = &["", "-1", "1.5", " 5", "5 x", "0x10", "18446744073709551616", "\u{661}", "+", "1_000"];
    let mut out: Vec<u8> = vec![];
    if ctx.rng.random_range(0..40) == 0 {
        // malformed stream: arbitrary bytes
        let n = ctx.rng.random_range(0..12);
        return (0..n).map(|_| [b'a', b'\t', b'1', b'\n', 0xff, 0xc3, 0xa4, b' '][ctx.rng.random_range(0..8)]).collect();
    }
    let n = ctx.rng.random_range(0..=7);
    let bad = ctx.rng.random_range(0..6) == 0;
    let bad_at = ctx.rng.random_range(0..=7);
    for i in 0..n {
        let k = KEYS[ctx.rng.random_range(0..KEYS.len())];
        let v = if bad && i == bad_at { BADVALS[ctx.rng.random_range(0..BADVALS.len())] } else { VALS[ctx.rng.random_range(0..VALS.len())] };
        if ctx.rng.random_range(0..12) == 0 {
            out.extend([" ", "\u{3000}", "\t"][ctx.rng.random_range(0..3)].as_bytes());
        }
        out.extend(k.as_bytes());
        out.extend(match ctx.rng.random_range(0..40) { 0 => "\t\t", 1 => " ", 2 => "", _ => "\t" }.as_bytes());
        out.extend(v.as_bytes());
        if ctx.rng.random_range(0..12) == 0 {
            out.extend([" ", "\u{a0}", "\t"][ctx.rng.random_range(0..3)].as_bytes());
        }
        if i + 1 < n || ctx.rng.random_bool(0.7) {
            out.extend(match ctx.rng.random_range(0..20) { 0 => "\r\n", 1 => "\n\n", _ => "\n" }.as_bytes());
        }
    }
    out
}

fn emit_dictfile(ctx: &mut Ctx, file: &[u8]) {
    let mut v = vec![];
    enc_bytes(&mut v, file);
    match std::str::from_utf8(file) {
        Ok(t) => enc_str(&mut v, t),
        Err(_) => v.push(0),
    }
    ctx.case("dictload", &v);
    // the save of the loaded dictionary, as observed in this run
    let p = format!("{}/gen-load.tsv", tmp());
    std::fs::write(&p, file).unwrap();
    let res = std::panic::catch_unwind(|| Dictionary::load(&p).ok().map(|d| (items(&d), saved_text(&d))));
    if let Ok(Some((it, Ok(saved)))) = res {
        if let Ok(text) = String::from_utf8(saved) {
            let mut v = vec![it.len() as u64];
            for (k, f) in &it {
                enc_str(&mut v, k);
                v.push(*f as u64);
            }
            enc_str(&mut v, &text);
            ctx.case("dictsave", &v);
        }
    }
}

pub fn run_c20(ctx: &mut Ctx) {
    let n = ctx.budget(150, 6000);
    for _ in 0..n {
        let nl = ctx.rng.random_range(0..=8);
        let lines: Vec<String> = (0..nl).map(|_| rand_line(ctx)).collect();
        let ms = [None, None, Some(0usize), Some(1), Some(2), Some(3), Some(100)][ctx.rng.random_range(0..7)];
        let mq = [None, None, Some(0usize), Some(2), Some(5), Some(100)][ctx.rng.random_range(0..6)];
        let threads = [0u64, 1, 4][ctx.rng.random_range(0..3)];
        let mode = [0u64, 0, 1, 3][ctx.rng.random_range(0..4)];
        let mut v = vec![];
        match ms {
            Some(x) => v.extend([1, x as u64]),
            None => v.push(0),
        }
        match mq {
            Some(x) => v.extend([1, x as u64]),
            None => v.push(0),
        }
        v.push(threads);
        v.push(mode);
        v.push(lines.len() as u64);
        for l in &lines {
            enc_str(&mut v, l);
            let toks = line_tokens(l, mode);
            v.push(toks.len() as u64);
            for t in toks {
                enc_bytes(&mut v, t.as_bytes());
            }
        }
        match std::panic::catch_unwind(|| create(&lines, ms, mq, threads as u8, mode)) {
            Ok(Ok(d)) => {
                let it = items(&d);
                v.extend([1, d.freq_sum as u64, it.len() as u64]);
                for (k, f) in &it {
                    enc_bytes(&mut v, k.as_bytes());
                    v.push(*f as u64);
                }
            }
            _ => v.push(0),
        }
        ctx.case("dictcreate", &v);
        // closest-entry queries on a small dictionary with frequency ties
        let ne = ctx.rng.random_range(0..=6);
        let mut keys: Vec<String> = vec![];
        for _ in 0..ne {
            let k = WORDS[ctx.rng.random_range(0..8)].to_string();
            if !keys.contains(&k) {
                keys.push(k);
            }
        }
        let freqs: Vec<usize> = keys.iter().map(|_| ctx.rng.random_range(1..=3)).collect();
        // the query as a caller spells it: a word, or a compatibility spelling of one of the keys (full-width letters,
        // the fi / fl ligatures, a decomposed accent) that NFKC maps onto the key
        let q_raw: String = if !keys.is_empty() && ctx.rng.random_range(0..3) == 0 {
            let k = keys[ctx.rng.random_range(0..keys.len())].clone();
            match ctx.rng.random_range(0..3) {
                0 => k.chars().map(|c| if c.is_ascii_alphanumeric() { char::from_u32(c as u32 - 0x21 + 0xFF01).unwrap() } else { c }).collect(),
                1 => k.replace("fi", "\u{fb01}").replace("fl", "\u{fb02}").replace('\u{e4}', "a\u{308}"),
                _ => k.chars().enumerate().map(|(i, c)| if i == 0 && c.is_ascii_alphanumeric() { char::from_u32(c as u32 - 0x21 + 0xFF01).unwrap() } else { c }).collect(),
            }
        } else {
            WORDS[ctx.rng.random_range(0..WORDS.len())].to_string()
        };
        let q = normalize(&q_raw, Normalization::NFKC, true);
        let norm = ctx.rng.random_bool(0.5);
        let p = format!("{}/closest-gen.tsv", tmp());
        {
            let mut f = std::fs::File::create(&p).unwrap();
            for (k, fr) in keys.iter().zip(&freqs) {
                writeln!(f, "{k}\t{fr}").unwrap();
            }
        }
        let d = Dictionary::load(&p).unwrap();
        let m = if norm { DictionaryDistanceMeasure::NormalizedEditDistance } else { DictionaryDistanceMeasure::EditDistance };
        let res = d.get_closest(&q_raw, m);
        let obs = res.and_then(|(t, _, _)| keys.iter().position(|k| *k == t));
        let mut v = vec![norm as u64];
        v.extend(enc_text(&q, true));
        v.push(keys.len() as u64);
        for (k, fr) in keys.iter().zip(&freqs) {
            v.extend(enc_text(k, true));
            v.push(*fr as u64);
        }
        match obs {
            Some(i) => v.extend([1, i as u64]),
            None => v.push(0),
        }
        enc_str(&mut v, &q_raw);
        ctx.case("closest", &v);
        // dictionary files: load, and the save of what was loaded
        let file = rand_dict_file(ctx);
        emit_dictfile(ctx, &file);
    }
    if ctx.first_shard() {
        for f in [&b""[..], b"\n", b"a\t1", b"a\t1\n", b"a\t1\r\n", b"a\t1\n\n", b" a\t1 \n", b"a \t1", b"a\t 1", b"a\t+1", b"a\t-1", b"a\t\t1", b"\t1", b"a\t",
            b"a", b"a\t18446744073709551615", b"a\t18446744073709551616", b"a\t01\na\t2", b"a b\t1\nb\t1\nc\t1\nd\t1\ne\t2", b"\xff\t1", b"a\t1\n\xc3", b"\xc2\xa0a\xc2\xa0\t3\xe3\x80\x80",
            b"a\x0bb\t1", b"a\rb\t1", b"\xef\xbb\xbfa\t1"] {
            emit_dictfile(ctx, f);
        }
    }
    std::fs::remove_dir_all(tmp()).ok();
}
