//! C10 (operations / repair), C11 (clean, word_boundaries, remove, full), C14 (whitespace corruption)
use crate::ctx::{Ctx, Outcome};
use crate::gen;
use crate::wire::*;
use rand::{Rng, SeedableRng};
use rand_chacha::ChaCha8Rng;
use text_utils::data::preprocessing::{preprocessing, Part, PreprocessingFnConfig};
use text_utils::data::{TextDataInfo, TrainData};
use text_utils::text::{clean, word_boundaries};
use text_utils::unicode::CharString as CS;
use text_utils::whitespace::{find_substring_ignoring_whitespace, full, operations, remove, repair, Operation};

fn op_code(o: &Operation) -> u64 {
    match o {
        Operation::Keep => 0,
        Operation::Insert => 1,
        Operation::Delete => 2,
    }
}

fn op_of(c: u64) -> Result<Operation, String> {
    Ok(match c {
        0 => Operation::Keep,
        1 => Operation::Insert,
        2 => Operation::Delete,
        _ => return Err("bad op".into()),
    })
}

/// no cluster mixes whitespace and non-whitespace code points (the grapheme-mode domain of C10/C11)
fn unmixed(s: &str, g: bool) -> bool {
    CS::split(s, g).all(|c| c.chars().all(char::is_whitespace) || !c.chars().any(char::is_whitespace))
}

/// re-segmenting `out` gives clusters that are exactly the non-ws clusters of `s` separated by " "
/// (grapheme mode only: F13 lives where this fails)
fn seg_stable(s: &str, out: &str, g: bool) -> bool {
    let mut expect: Vec<String> = vec![];
    let mut pending = false;
    for c in CS::split(s, g) {
        if c.chars().all(char::is_whitespace) {
            pending = true;
        } else {
            if pending && !expect.is_empty() {
                expect.push(" ".into());
            }
            pending = false;
            expect.push(c.trim().to_string());
        }
    }
    let got: Vec<String> = CS::split(out, g).map(|c| c.to_string()).collect();
    got == expect
}

pub fn exec(op: &str, a: &[u64]) -> Result<Outcome, String> {
    let mut r = Rd::new(a);
    match op {
        "clean" => {
            let (g, s) = r.gtext()?;
            r.end()?;
            let out = clean(&s, g);
            let mut o = Outcome::new(ok_str(&out));
            if unmixed(&s, g) {
                let want = s.split_whitespace().collect::<Vec<_>>().join(" ");
                o.check(out == want, "clean != split_whitespace().join(' ')");
                o.check(gen::is_clean_str(&out), "clean output not in normal form");
                o.check(gen::remove_ws(&out) == gen::remove_ws(&s), "clean changed non-whitespace");
                let again = clean(&out, g);
                if again != out {
                    // idempotence is a string-level re-segmentation claim (DESIGN §5.1)
                    if g && !seg_stable(&s, &out, g) {
                        o.check(false, "F13 clean not idempotent: re-segmentation of output differs");
                    } else {
                        o.check(false, "clean not idempotent");
                    }
                }
            }
            Ok(o)
        }
        "modeswitch" => {
            // the four functions in code-point mode straight after the same calls in grapheme mode on the same text
            // (the answer of one mode must not depend on what the other mode computed before).  The request is a plain
            // code-point list; the answer is that of the code-point mode.
            let cps = r.nats()?;
            r.end()?;
            let s = cps_to_string(&cps)?;
            let _ = (clean(&s, true), word_boundaries(&s, true), remove(&s, true), full(&s, true));
            let (c, wb, rm, fl) = (clean(&s, false), word_boundaries(&s, false), remove(&s, false), full(&s, false));
            let mut v = vec![];
            enc_str(&mut v, &c);
            v.push(wb.len() as u64);
            for &(a, b) in &wb {
                v.extend([a as u64, b as u64]);
            }
            enc_str(&mut v, &rm);
            enc_str(&mut v, &fl);
            let mut o = Outcome::new(ok(v));
            o.check(c == s.split_whitespace().collect::<Vec<_>>().join(" "), "clean != split_whitespace().join(' ') (code-point mode after grapheme mode)");
            o.check(rm == gen::remove_ws(&s), "remove != string without whitespace characters (code-point mode after grapheme mode)");
            let want: Vec<String> = s.chars().filter(|c| !c.is_whitespace()).map(|c| c.to_string()).collect();
            o.check(fl == want.join(" "), "full != remaining characters separated by one space (code-point mode after grapheme mode)");
            let chars: Vec<char> = s.chars().collect();
            let words: Vec<&str> = s.split_whitespace().collect();
            o.check(wb.len() == words.len() && wb.iter().zip(&words).all(|(&(a, b), w)| a < b && b <= chars.len() && chars[a..b].iter().collect::<String>() == **w), "word boundaries are not the code-point ranges of the words (code-point mode after grapheme mode)");
            Ok(o)
        }
        "wb" => {
            let (g, s) = r.gtext()?;
            r.end()?;
            let wb = word_boundaries(&s, g);
            let mut o = Outcome::new(ok_pairs(&wb));
            if unmixed(&s, g) {
                let cs = CS::new(&s, g);
                let words: Vec<&str> = s.split_whitespace().collect();
                o.check(wb.len() == words.len(), "word_boundaries count != number of words");
                let mut prev_end = 0;
                for (i, &(st, en)) in wb.iter().enumerate() {
                    o.check(st < en && en <= cs.len() && (i == 0 || st > prev_end), "boundaries not increasing ranges");
                    if st < en && en <= cs.len() && i < words.len() {
                        o.check(cs.sub(st, en) == words[i], "boundary slice != word");
                    }
                    prev_end = en;
                }
            }
            Ok(o)
        }
        "remove" => {
            let (g, s) = r.gtext()?;
            r.end()?;
            let out = remove(&s, g);
            let mut o = Outcome::new(ok_str(&out));
            if unmixed(&s, g) {
                o.check(out == gen::remove_ws(&s), "remove != string without whitespace characters");
            }
            Ok(o)
        }
        "findsub" => {
            // find_substring_ignoring_whitespace(s, substring, g): the slice of `s` that equals `substring` up to white
            // space (used by the substring preprocessing to cut the target to the window of the input)
            let g = r.bool()?;
            let t = r.text()?;
            let u = r.text()?;
            r.end()?;
            let (s, sub) = (text_to_string(&t)?, text_to_string(&u)?);
            if enc_text(&s, g) != enc_text_raw(&t) || enc_text(&sub, g) != enc_text_raw(&u) {
                return Err("segmentation differs from request".into());
            }
            let res = find_substring_ignoring_whitespace(&s, &sub, g);
            let mut o = match res {
                Some(m) => {
                    let off = (m.as_ptr() as usize).wrapping_sub(s.as_ptr() as usize);
                    if off > s.len() || off + m.len() > s.len() {
                        return Err("the result is not a slice of s".into());
                    }
                    let a = s[..off].chars().count() as u64;
                    let b = a + m.chars().count() as u64;
                    Outcome::new(ok([1, a, b]))
                }
                None => Outcome::new(ok([0])),
            };
            if unmixed(&s, g) && unmixed(&sub, g) {
                let want = gen::remove_ws(&sub);
                match res {
                    Some(m) => {
                        let off = m.as_ptr() as usize - s.as_ptr() as usize;
                        o.check(gen::remove_ws(m) == want, "the slice found differs from the substring by more than white space");
                        o.check(!s[..off].chars().next_back().map(char::is_whitespace).unwrap_or(false), "the slice found is preceded by white space (not the leftmost match)");
                        o.check(!s[off + m.len()..].chars().next().map(char::is_whitespace).unwrap_or(false), "the slice found is followed by white space");
                    }
                    None => {
                        // no slice of s is the substring up to white space (all slices of a short s).  Only for
                        // substrings whose characters are single code points: a character of several code points
                        // must occur in s as a whole (the code points of "B + ZWJ" with a white space between them
                        // are other characters), which a comparison of strings does not see
                        // (`C11fs.findSub_complete_partial` and the counterexample beside it)
                        let idx: Vec<usize> = s.char_indices().map(|x| x.0).chain([s.len()]).collect();
                        let single = CS::split(&sub, g).all(|c| c.chars().count() == 1);
                        if idx.len() <= 60 && single {
                            let found = idx.iter().enumerate().any(|(i, &a)| idx[i..].iter().any(|&b| gen::remove_ws(&s[a..b]) == want));
                            o.check(!found, "nothing found although a slice of s equals the substring up to white space");
                        }
                    }
                }
            }
            Ok(o)
        }
        "full" => {
            let (g, s) = r.gtext()?;
            r.end()?;
            let out = full(&s, g);
            let mut o = Outcome::new(ok_str(&out));
            if unmixed(&s, g) {
                let want = CS::split(&s, g).filter(|c| !c.chars().all(char::is_whitespace)).collect::<Vec<_>>().join(" ");
                o.check(out == want, "full != remaining characters separated by one space");
            }
            Ok(o)
        }
        "wsops" => {
            let g = r.bool()?;
            let ft = r.text()?;
            let tt = r.text()?;
            r.end()?;
            let f = text_to_string(&ft)?;
            let t = text_to_string(&tt)?;
            if enc_text(&f, g) != enc_text_raw(&ft) || enc_text(&t, g) != enc_text_raw(&tt) {
                return Err("segmentation differs from request".into());
            }
            let res = operations(&f, &t, g);
            let nonws = |x: &str| clusters(x, g).into_iter().filter(|c| !c.iter().all(|&u| char::from_u32(u as u32).unwrap().is_whitespace())).collect::<Vec<_>>();
            // F14: in grapheme mode a space in `to` (or `from`) can split what is one cluster in the other text
            let same_clusters = nonws(&f) == nonws(&t);
            let in_domain = gen::is_clean_str(&f)
                && gen::is_clean_str(&t)
                && gen::remove_ws(&f) == gen::remove_ws(&t)
                && unmixed(&f, g)
                && unmixed(&t, g);
            match res {
                Ok(ops) => {
                    let mut o = Outcome::new(ok(std::iter::once(ops.len() as u64).chain(ops.iter().map(op_code))));
                    if in_domain && g && !same_clusters {
                        if !matches!(repair(&f, &ops, g), Ok(ref rep) if *rep == t) {
                            o.check(false, "F14 repair(operations) != to: whitespace splits a grapheme cluster of the other text");
                        }
                    } else if in_domain {
                        o.check(ops.len() == CS::new(&f, g).len(), "not one operation per character of from");
                        match repair(&f, &ops, g) {
                            Ok(rep) => o.check(rep == t, "repair(from, operations(from,to)) != to"),
                            Err(_) => o.check(false, "repair failed on operations output"),
                        }
                    }
                    Ok(o)
                }
                Err(_) => {
                    let mut o = Outcome::new(err("should-not-happen"));
                    if in_domain && g && !same_clusters {
                        o.check(false, "F14 operations fails: whitespace splits a grapheme cluster of the other text");
                    }
                    o.check(!in_domain, "operations failed on clean whitespace-equivalent texts");
                    Ok(o)
                }
            }
        }
        "wslabels" => {
            // the whitespace-correction task on a given (input, target) pair: the labels are operations(input, target)
            // between -1 labels for the prefix / suffix tokens, whatever tokenizer the task is configured with
            // (tk: 0 character tokenizer in the task's mode, 1 character tokenizer in the other mode, 2 byte tokenizer)
            let g = r.bool()?;
            let ft = r.text()?;
            let tt = r.text()?;
            let tk = r.nat()?;
            let np = r.usize()?;
            let ns = r.usize()?;
            r.end()?;
            let f = text_to_string(&ft)?;
            let t = text_to_string(&tt)?;
            if enc_text(&f, g) != enc_text_raw(&ft) || enc_text(&t, g) != enc_text_raw(&tt) {
                return Err("segmentation differs from request".into());
            }
            let nonws = |x: &str| clusters(x, g).into_iter().filter(|c| !c.iter().all(|&u| char::from_u32(u as u32).unwrap().is_whitespace())).collect::<Vec<_>>();
            let in_domain = gen::is_clean_str(&f) && gen::is_clean_str(&t) && gen::remove_ws(&f) == gen::remove_ws(&t) && unmixed(&f, g) && unmixed(&t, g);
            if g && in_domain && nonws(&f) != nonws(&t) {
                return Err("F14 pair (a space splits a cluster of the other text): covered by wsops".into());
            }
            use text_utils::data::task::{train_task, TrainTaskConfig};
            use text_utils::data::TrainTaskInput;
            use text_utils::tokenization::{ByteGroups, ByteTokenizerConfig, CharTokenizerConfig, GroupAggregation, SpecialConfig, TokenizeConfig, TokenizerConfig};
            let special = SpecialConfig { prefix: vec!["<bos>".to_string(); np], suffix: vec!["<eos>".to_string(); ns], ..SpecialConfig::default() };
            let tokenize = match tk {
                0 => TokenizeConfig::Character(CharTokenizerConfig { use_graphemes: g, unk_token: "<unk>".to_string() }),
                1 => TokenizeConfig::Character(CharTokenizerConfig { use_graphemes: !g, unk_token: "<unk>".to_string() }),
                2 => TokenizeConfig::Byte(ByteTokenizerConfig { use_graphemes: g, pad_to_multiple_of: None, groups: ByteGroups::Bytes, aggregation: GroupAggregation::Mean }),
                _ => return Err("bad tokenizer kind".into()),
            };
            let task = train_task(TrainTaskConfig::WhitespaceCorrection(g, TokenizerConfig { tokenize, special }));
            let item = TrainData::new(f.clone(), Some(t.clone()));
            let mut o;
            match task(&item) {
                Ok(TrainTaskInput::SequenceClassification { token_ids, labels, .. }) => {
                    let mut v = vec![];
                    enc_nats(&mut v, labels.iter().map(|l| (*l + 1) as u64));
                    o = Outcome::new(ok(v));
                    let n_chars = CS::new(&f, g).len();
                    o.check(labels.len() >= np + ns && labels[..np.min(labels.len())].iter().all(|l| *l == -1) && labels[labels.len().saturating_sub(ns)..].iter().all(|l| *l == -1), "prefix / suffix tokens do not carry the ignore label -1");
                    if tk == 0 {
                        o.check(labels.len() == token_ids.len(), "not one label per token");
                    }
                    if in_domain {
                        o.check(labels.len() == np + n_chars + ns, "not one label per character of the input (plus prefix and suffix)");
                        if labels.len() == np + n_chars + ns {
                            let mid: Vec<Operation> = labels[np..np + n_chars].iter().filter_map(|l| op_of(*l as u64).ok()).collect();
                            o.check(mid.len() == n_chars, "a character carries a label that is not an operation");
                            o.check(matches!(operations(&f, &t, g), Ok(ref ops) if *ops == mid), "the labels are not operations(input, target)");
                            if mid.len() == n_chars {
                                o.check(matches!(repair(&f, &mid, g), Ok(ref rep) if *rep == t), "repairing the input with the labels of its characters does not give the target");
                            }
                        }
                    }
                }
                Ok(_) => return Err("unexpected task input kind".into()),
                Err(_) => {
                    o = Outcome::new(err("task"));
                    o.check(!in_domain, "the whitespace-correction task failed on clean whitespace-equivalent texts");
                }
            }
            Ok(o)
        }
        "repair" => {
            let (g, s) = r.gtext()?;
            let ops = r.nats()?.into_iter().map(op_of).collect::<Result<Vec<_>, _>>()?;
            r.end()?;
            let n = CS::new(&s, g).len();
            match repair(&s, &ops, g) {
                Ok(out) => {
                    let mut o = Outcome::new(ok_str(&out));
                    o.check(ops.len() == n, "repair accepted a length mismatch");
                    if unmixed(&s, g) {
                        o.check(gen::remove_ws(&out) == gen::remove_ws(&s), "repair changed non-whitespace text");
                    }
                    if ops.iter().all(|x| *x == Operation::Keep) {
                        o.check(out == s, "all-Keep repair is not the identity");
                    }
                    Ok(o)
                }
                Err(_) => {
                    let mut o = Outcome::new(err("len-mismatch"));
                    o.check(ops.len() != n, "repair failed although lengths match");
                    Ok(o)
                }
            }
        }
        "corruptws" => {
            // corruptws g text seed iw dw out   (probabilities in 1/1000; out = the output observed by the
            // generating run, judged by the model: possible for SOME random stream the probabilities allow)
            let (g, s) = r.gtext()?;
            let seed = r.nat()?;
            let iw = r.nat()? as f64 / 1000.0;
            let dw = r.nat()? as f64 / 1000.0;
            let recorded = r.string()?;
            r.end()?;
            if !(iw > 0.0 || dw > 0.0) {
                return Err("both probabilities zero".into());
            }
            let f = preprocessing(PreprocessingFnConfig::WhitespaceCorruption(Part::Input, iw, dw, g));
            let info = TextDataInfo { seed, file_idx: 0, marks: Default::default() };
            let (item, _) = f(TrainData::new(s.clone(), None), info.clone()).map_err(|e| e.to_string())?;
            let (item2, _) = f(TrainData::new(s.clone(), None), info).map_err(|e| e.to_string())?;
            let out = item.verif_input().to_string();
            let mut o = Outcome::new("accept".to_string());
            o.check(item.verif_target() == s, "target was modified");
            o.check(item2.verif_input() == out, "not a deterministic function of (text, seed)");
            // the same (text, seed) as an item of another file of the data set
            for file_idx in [1usize, 2 + (seed % 5) as usize] {
                let info = TextDataInfo { seed, file_idx, marks: Default::default() };
                let (item3, _) = f(TrainData::new(s.clone(), None), info).map_err(|e| e.to_string())?;
                o.check(item3.verif_input() == out, "not a deterministic function of (text, seed): the output depends on which file the item comes from");
            }
            o.check(recorded == out, "not a deterministic function of (text, seed): differs from the output of the generating run");
            let nonws = |x: &str| clusters(x, g).into_iter().filter(|c| !c.iter().all(|&u| char::from_u32(u as u32).unwrap().is_whitespace())).collect::<Vec<_>>();
            if gen::is_clean_str(&s) && unmixed(&s, g) && g && (nonws(&out) != nonws(&s) || !unmixed(&out, g)) {
                // F15: an inserted space fuses with a following lone Extend/ZWJ cluster when the
                // corrupted string is segmented again (same family as F13)
                o.check(gen::remove_ws(&out) == gen::remove_ws(&s), "non-whitespace characters changed");
                o.check(false, "F15 corrupted text re-segments differently: inserted space fuses with a following Extend cluster");
            } else if gen::is_clean_str(&s) && unmixed(&s, g) {
                o.check(gen::remove_ws(&out) == gen::remove_ws(&s), "non-whitespace characters changed");
                o.check(gen::is_clean_str(&out), "corrupted text is not whitespace-clean");
                match operations(&out, &s, g) {
                    Ok(ops) => {
                        o.check(ops.len() == CS::new(&out, g).len(), "not one label per input character");
                        match repair(&out, &ops, g) {
                            Ok(rep) => o.check(rep == s, "repair(operations) does not recover the text"),
                            Err(_) => o.check(false, "repair failed"),
                        }
                    }
                    Err(_) => o.check(false, "operations(corrupted, text) failed"),
                }
                let nws = |x: &str| x.chars().filter(|c| c.is_whitespace()).count();
                if dw == 0.0 {
                    o.check(nws(&out) >= nws(&s), "whitespace disappeared with delete probability 0");
                }
                if iw == 0.0 {
                    o.check(nws(&out) <= nws(&s), "whitespace appeared with insert probability 0");
                }
            }
            Ok(o)
        }
        "wstask" => {
            // the whitespace-correction task on a corrupted item: one label per input character, -1 on the prefix /
            // suffix tokens.  wstask g text seed iw dw np ns | corrupted (code points, observed)
            let (g, s) = r.gtext()?;
            let seed = r.nat()?;
            let iw = r.nat()? as f64 / 1000.0;
            let dw = r.nat()? as f64 / 1000.0;
            let np = r.usize()?;
            let ns = r.usize()?;
            let recorded = r.string()?;
            r.end()?;
            if !(iw > 0.0 || dw > 0.0) {
                return Err("both probabilities zero".into());
            }
            if !(gen::is_clean_str(&s) && unmixed(&s, g)) {
                return Err("wstask is only defined on the property's domain: clean texts whose clusters do not mix white space and other characters".into());
            }
            use text_utils::data::task::{train_task, TrainTaskConfig};
            use text_utils::data::TrainTaskInput;
            use text_utils::tokenization::{CharTokenizerConfig, SpecialConfig, TokenizeConfig, TokenizerConfig};
            let f = preprocessing(PreprocessingFnConfig::WhitespaceCorruption(Part::Input, iw, dw, g));
            let info = TextDataInfo { seed, file_idx: 0, marks: Default::default() };
            let (item, _) = f(TrainData::new(s.clone(), None), info).map_err(|e| e.to_string())?;
            let out = item.verif_input().to_string();
            let special = SpecialConfig { prefix: vec!["<bos>".to_string(); np], suffix: vec!["<eos>".to_string(); ns], ..SpecialConfig::default() };
            let cfg = TokenizerConfig { tokenize: TokenizeConfig::Character(CharTokenizerConfig { use_graphemes: g, unk_token: "<unk>".to_string() }), special };
            let task = train_task(TrainTaskConfig::WhitespaceCorrection(g, cfg));
            let res = task(&item);
            let mut o;
            // F15: in grapheme mode an inserted space can fuse with a following lone Extend / ZWJ cluster when the
            // corrupted string is segmented again; the task then sees other characters than the cluster-level model
            {
                let nonws = |x: &str| clusters(x, g).into_iter().filter(|c| !c.iter().all(|&u| char::from_u32(u as u32).unwrap().is_whitespace())).collect::<Vec<_>>();
                if g && gen::is_clean_str(&s) && unmixed(&s, g) && (nonws(&out) != nonws(&s) || !unmixed(&out, g)) {
                    let mut o = Outcome::new("f15".to_string());
                    o.check(false, "F15 corrupted text re-segments differently: inserted space fuses with a following Extend cluster");
                    return Ok(o);
                }
            }
            match res {
                Ok(TrainTaskInput::SequenceClassification { token_ids, labels, .. }) => {
                    let mut v = vec![token_ids.len() as u64];
                    enc_nats(&mut v, labels.iter().map(|l| (*l + 1) as u64));
                    o = Outcome::new(ok(v));
                    let n_chars = CS::new(&out, g).len();
                    o.check(labels.len() == token_ids.len(), "not one label per token");
                    o.check(token_ids.len() == np + n_chars + ns, "not one token per input character plus prefix and suffix");
                    o.check(labels.len() >= np + ns && labels[..np].iter().all(|l| *l == -1) && labels[labels.len() - ns..].iter().all(|l| *l == -1), "prefix / suffix tokens do not carry the ignore label -1");
                    if labels.len() == np + n_chars + ns {
                        let mid: Vec<Operation> = labels[np..np + n_chars].iter().filter_map(|l| op_of(*l as u64).ok()).collect();
                        o.check(mid.len() == n_chars, "a character carries a label that is not an operation");
                        if mid.len() == n_chars && gen::is_clean_str(&s) && unmixed(&s, g) && unmixed(&out, g) {
                            let nonws = |x: &str| clusters(x, g).into_iter().filter(|c| !c.iter().all(|&u| char::from_u32(u as u32).unwrap().is_whitespace())).collect::<Vec<_>>();
                            if nonws(&out) == nonws(&s) {
                                o.check(matches!(repair(&out, &mid, g), Ok(ref rep) if *rep == s), "repairing the input with the labels of its characters does not give the target");
                            }
                        }
                    }
                }
                Ok(_) => return Err("unexpected task input kind".into()),
                Err(_) => {
                    o = Outcome::new(err("task"));
                    if gen::is_clean_str(&s) && unmixed(&s, g) && unmixed(&out, g) {
                        let nonws = |x: &str| clusters(x, g).into_iter().filter(|c| !c.iter().all(|&u| char::from_u32(u as u32).unwrap().is_whitespace())).collect::<Vec<_>>();
                        if nonws(&out) == nonws(&s) {
                            o.check(false, "the whitespace-correction task failed on a corrupted clean text");
                        }
                    }
                }
            }
            o.check(recorded == out, "not a deterministic function of (text, seed): differs from the output of the generating run");
            Ok(o)
        }
        "wstable" => {
            let lo = r.nat()? as u32;
            let hi = r.nat()? as u32;
            r.end()?;
            let v: Vec<u64> = (lo..hi).filter(|c| char::from_u32(*c).map(|c| c.is_whitespace()).unwrap_or(false)).map(|c| c as u64).collect();
            let mut out = vec![];
            enc_nats(&mut out, v);
            Ok(Outcome::new(ok(out)))
        }
        "utf8table" => {
            let lo = r.nat()? as u32;
            let hi = r.nat()? as u32;
            r.end()?;
            let mut n = 0u64;
            let mut len = 0u64;
            let mut acc = 7u64;
            for c in (lo..hi).filter_map(char::from_u32) {
                n += 1;
                let mut buf = [0u8; 4];
                for b in c.encode_utf8(&mut buf).bytes() {
                    len += 1;
                    acc = (acc * 257 + b as u64 + 1) % 1_000_000_007;
                }
            }
            Ok(Outcome::new(ok([n, len, acc])))
        }
        _ => Err(format!("unknown op {op}")),
    }
}

/// the model's Unicode tables against the standard library: White_Space (`char::is_whitespace`) and UTF-8
/// (`char::encode_utf8`); all code points in the thorough tier, the table boundaries in the quick tier
pub fn unicode_tables(ctx: &mut Ctx) {
    if !ctx.first_shard() {
        return;
    }
    let chunks: Vec<(u64, u64)> = if ctx.thorough {
        (0..0x110000u64).step_by(0x1000).map(|lo| (lo, lo + 0x1000)).collect()
    } else {
        vec![(0, 0x100), (0x1600, 0x1700), (0x2000, 0x2100), (0x3000, 0x3010), (0x7f0, 0x810), (0xd7f0, 0xe010), (0xfff0, 0x10010), (0x10fff0, 0x110000)]
    };
    for (lo, hi) in chunks {
        ctx.case("wstable", &[lo, hi]);
        ctx.case("utf8table", &[lo, hi]);
    }
}

/// the per-character threshold outcomes of the ChaCha8 stream of `seed` (DESIGN §5.3, exact tie)
fn req_gtext(s: &str, g: bool) -> Vec<u64> {
    let mut v = vec![];
    enc_gtext(&mut v, s, g);
    v
}

pub fn run_c11(ctx: &mut Ctx) {
    unicode_tables(ctx);
    // corpus: hand-written edge cases first
    let corpus = [
        "", " ", "a", " a", "a ", "a  b", "\t a \u{3000}b\r\n", "a\n\u{301}", "a \u{301}b", "\u{200B} a",
        "a\u{A0}b", "\u{85}x\u{2028}y\u{2029}", "a\u{1F468}\u{200D}\u{1F469}  b", " \u{301}", "\r\n", "\r \n",
    ];
    let fs = ctx.first_shard();
    for s in corpus.iter().filter(|_| fs) {
        for g in [false, true] {
            for op in ["clean", "wb", "remove", "full"] {
                ctx.case(op, &req_gtext(s, g));
            }
        }
    }
    if ctx.thorough && ctx.first_shard() {
        // exhaustive: all strings of length ≤ 5 over a 7-symbol alphabet, both modes
        let alpha = ['a', 'b', ' ', '\t', '\u{3000}', '\u{301}', '\u{200B}'];
        for s in gen::all_strings(&alpha, 5) {
            for g in [false, true] {
                for op in ["clean", "wb", "remove", "full"] {
                    ctx.case(op, &req_gtext(&s, g));
                }
            }
        }
    }
    if ctx.thorough && ctx.first_shard() {
        // exhaustive: find_substring_ignoring_whitespace for all texts of length <= 5 and substrings of length <= 3
        // over {a, b, space, tab}, both modes
        let alpha = ['a', 'b', ' ', '\t'];
        let subs = gen::all_strings(&alpha, 3);
        for s in gen::all_strings(&alpha, 5) {
            for sub in &subs {
                for g in [false, true] {
                    let mut v = vec![g as u64];
                    v.extend(enc_text(&s, g));
                    v.extend(enc_text(sub, g));
                    ctx.case("findsub", &v);
                }
            }
        }
    }
    let n = ctx.budget(1500, 60000);
    for i in 0..n {
        let exotic = i % 4 != 0;
        // a few long texts (block-wise processing, buffer sizes): lengths around powers of two
        let maxlen = if i % 150 == 7 { [1000usize, 4100, 8200][ctx.rng.random_range(0..3)] } else if i % 10 == 0 { 40 } else { 12 };
        let s = gen::ws_text(&mut ctx.rng, maxlen, exotic);
        let g = ctx.rng.random_bool(0.5);
        for op in ["clean", "wb", "remove", "full"] {
            ctx.case(op, &req_gtext(&s, g));
        }
        if i % 3 == 1 {
            // a slice of the text with another spacing (found), the same with one character changed or appended
            // (mostly not found), an unrelated text, white space only
            let chars: Vec<&str> = CS::split(&s, g).collect();
            let n = chars.len();
            let (a, b) = if n == 0 { (0, 0) } else { let a = ctx.rng.random_range(0..n); (a, ctx.rng.random_range(a..=n)) };
            let slice: String = chars[a..b].concat();
            let sub = match ctx.rng.random_range(0..6) {
                0 => gen::ws_text(&mut ctx.rng, 6, exotic),
                1 => [" ", "", "\t \u{3000}"][ctx.rng.random_range(0..3)].to_string(),
                2 => format!("{}x", respace(&mut ctx.rng, &slice, g)),
                3 => gen::remove_ws(&slice),
                _ => respace(&mut ctx.rng, &slice, g),
            };
            let mut v = vec![g as u64];
            v.extend(enc_text(&s, g));
            v.extend(enc_text(&sub, g));
            ctx.case("findsub", &v);
        }
        if i % 5 == 2 {
            // both modes back to back on one text of 60-300 bytes with multi-code-point clusters
            let mut t = String::new();
            while t.len() < 60 + (i as usize % 7) * 40 {
                t.push_str(&gen::ws_text(&mut ctx.rng, 12, true));
                t.push_str(["e\u{301}", " \u{301}", "x\u{30c}", "\u{1F468}\u{200D}\u{1F469}", "\r\n"][ctx.rng.random_range(0..5)]);
            }
            let mut v = vec![];
            enc_str(&mut v, &t);
            ctx.case("modeswitch", &v);
        }
    }
}

/// respace: the same non-ws skeleton with an independent spacing
fn respace(rng: &mut ChaCha8Rng, s: &str, g: bool) -> String {
    let mut out = String::new();
    let cl: Vec<&str> = CS::split(s, g).filter(|c| !c.chars().all(char::is_whitespace)).collect();
    for (i, c) in cl.iter().enumerate() {
        if i > 0 && rng.random_bool(0.4) {
            out.push(' ');
        }
        out.push_str(c);
    }
    out
}

pub fn run_c10(ctx: &mut Ctx) {
    let corpus: [(&str, &str); 8] = [
        ("", ""), ("ab", "a b"), ("a b", "ab"), ("a b c", "ab c"), ("ab", "abc"), ("a  b", "a b"), (" a", "a"), ("a", ""),
    ];
    let fs = ctx.first_shard();
    for (f, t) in corpus.iter().filter(|_| fs) {
        for g in [false, true] {
            let mut v = vec![g as u64];
            v.extend(enc_text(f, g));
            v.extend(enc_text(t, g));
            ctx.case("wsops", &v);
        }
    }
    if ctx.thorough && ctx.first_shard() {
        let alpha = ['a', 'b', ' ', '\u{3000}'];
        let all = gen::all_strings(&alpha, 4);
        for f in &all {
            for t in &all {
                let mut v = vec![0u64];
                v.extend(enc_text(f, false));
                v.extend(enc_text(t, false));
                ctx.case("wsops", &v);
            }
        }
    }
    let n = ctx.budget(3000, 150000);
    for i in 0..n {
        let g = ctx.rng.random_bool(0.5);
        let exotic = i % 3 != 0;
        // clean stream (70 %), error stream (30 %)
        let (f, t) = if i % 300 == 11 {
            // long texts
            let nwords = [300usize, 1100][ctx.rng.random_range(0..2)];
            let base = gen::clean_text(&mut ctx.rng, nwords, exotic);
            (respace(&mut ctx.rng, &base, g), respace(&mut ctx.rng, &base, g))
        } else if i % 10 < 7 {
            let base = gen::clean_text(&mut ctx.rng, 5, exotic);
            (respace(&mut ctx.rng, &base, g), respace(&mut ctx.rng, &base, g))
        } else if i % 10 < 9 {
            (gen::ws_text(&mut ctx.rng, 8, exotic), gen::ws_text(&mut ctx.rng, 8, exotic))
        } else {
            let base = gen::clean_text(&mut ctx.rng, 4, exotic);
            (respace(&mut ctx.rng, &base, g), gen::clean_text(&mut ctx.rng, 4, exotic))
        };
        let mut v = vec![g as u64];
        v.extend(enc_text(&f, g));
        v.extend(enc_text(&t, g));
        ctx.case("wsops", &v);
        if i % 4 == 1 {
            // the task that derives its labels from operations(): the same pair or an identical pair (nothing to
            // correct), every tokenizer kind, 0-2 prefix / suffix tokens
            let (f2, t2) = if ctx.rng.random_range(0..3) == 0 { (t.clone(), t.clone()) } else { (f.clone(), t.clone()) };
            let nonws = |x: &str| clusters(x, g).into_iter().filter(|c| !c.iter().all(|&u| char::from_u32(u as u32).unwrap().is_whitespace())).collect::<Vec<_>>();
            let dom = gen::is_clean_str(&f2) && gen::is_clean_str(&t2) && gen::remove_ws(&f2) == gen::remove_ws(&t2) && unmixed(&f2, g) && unmixed(&t2, g);
            if !(g && dom && nonws(&f2) != nonws(&t2)) && f2.len() < 4000 {
                let mut v = vec![g as u64];
                v.extend(enc_text(&f2, g));
                v.extend(enc_text(&t2, g));
                v.extend([ctx.rng.random_range(0..3u64), ctx.rng.random_range(0..=2u64), ctx.rng.random_range(0..=2u64)]);
                ctx.case("wslabels", &v);
            }
        }
        // repair with arbitrary operation sequences (matching length 85 %)
        let s = if i % 2 == 0 { f } else { gen::ws_text(&mut ctx.rng, 10, exotic) };
        let n = CS::new(&s, g).len();
        let m = if ctx.rng.random_range(0..100) < 85 { n } else { ctx.rng.random_range(0..=n + 2) };
        let all_keep = ctx.rng.random_range(0..100) < 5;
        let ops: Vec<u64> = (0..m).map(|_| if all_keep { 0 } else { ctx.rng.random_range(0..3) }).collect();
        let mut v = req_gtext(&s, g);
        enc_nats(&mut v, ops);
        ctx.case("repair", &v);
        if i % 120 == 5 {
            // the error path with a long non-ASCII text (error messages that quote the input): every alignment of the
            // two-byte letters relative to byte 256
            let pad = ctx.rng.random_range(0..4);
            let mut long = "a".repeat(pad);
            while long.len() < 300 {
                long.push_str(" \u{e4}\u{e4}\u{e4}\u{4e2d}");
            }
            let n = CS::new(&long, g).len();
            let mut v = req_gtext(&long, g);
            enc_nats(&mut v, (0..n - 1 - pad).map(|_| 0u64));
            ctx.case("repair", &v);
            // and operations() between long texts that do not match
            let other = format!("{long}x");
            let mut v = vec![g as u64];
            v.extend(enc_text(&long, g));
            v.extend(enc_text(&other, g));
            ctx.case("wsops", &v);
        }
    }
}

pub fn run_c14(ctx: &mut Ctx) {
    let n = ctx.budget(3000, 150000);
    for i in 0..n {
        let g = ctx.rng.random_bool(0.5);
        let s = if i % 300 == 13 {
            {
                let nwords = [300usize, 1100][ctx.rng.random_range(0..2)];
                gen::clean_text(&mut ctx.rng, nwords, i % 3 != 0)
            }
        } else if i % 20 == 19 {
            gen::ws_text(&mut ctx.rng, 10, true)
        } else if i % 12 == 6 {
            // texts that spell special tokens of the task's tokenizer, whole or in parts that whitespace deletion joins
            let words = ["<unk>", "<bos>", "<eos>", "<pad>", "<", "pad", ">", "unk", "<pad", "ab", "\u{e4}"];
            (0..ctx.rng.random_range(1..=7)).map(|_| words[ctx.rng.random_range(0..words.len())]).collect::<Vec<_>>().join(" ")
        } else {
            gen::clean_text(&mut ctx.rng, 6, i % 3 != 0)
        };
        let seed: u64 = gen::seed(&mut ctx.rng);
        let probs = [0u64, 0, 100, 300, 500, 900, 1000];
        let mut iw = probs[ctx.rng.random_range(0..probs.len())];
        let dw = probs[ctx.rng.random_range(0..probs.len())];
        if iw == 0 && dw == 0 {
            iw = 500;
        }
        let mut v = req_gtext(&s, g);
        v.push(seed);
        v.push(iw);
        v.push(dw);
        let f = preprocessing(PreprocessingFnConfig::WhitespaceCorruption(Part::Input, iw as f64 / 1000.0, dw as f64 / 1000.0, g));
        let info = TextDataInfo { seed, file_idx: 0, marks: Default::default() };
        let out = match std::panic::catch_unwind(std::panic::AssertUnwindSafe(|| f(TrainData::new(s.clone(), None), info))) {
            Ok(Ok((item, _))) => item.verif_input().to_string(),
            // an error or a panic is reproduced (and reported) by the exec side
            _ => String::new(),
        };
        enc_str(&mut v, &out);
        ctx.case("corruptws", &v);
        if (i % 3 == 0 || i % 12 == 6) && gen::is_clean_str(&s) && unmixed(&s, g) {
            // the whitespace-correction task on the corrupted item (clean texts: the property's domain), with 0-2
            // prefix and suffix tokens
            let np = ctx.rng.random_range(0..=2u64);
            let ns = ctx.rng.random_range(0..=2u64);
            let mut v = req_gtext(&s, g);
            v.extend([seed, iw, dw, np, ns]);
            enc_str(&mut v, &out);
            ctx.case("wstask", &v);
        }
    }
}
