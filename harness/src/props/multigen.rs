//! C07 — multi-source generator
use crate::ctx::{Ctx, Outcome};
use crate::wire::*;
use rand::Rng;
use std::io::Write;
use text_utils::data::loading::{train_data_generator_from_jsonl, GenerationStrategy, MultiTrainDataGenerator, TrainDataGenerator};

fn tmp() -> String {
    // inside the run directory of this shard (removed by ./check with it); replays fall back to /verif/work
    let d = match std::env::var("TU_HARNESS_TMP") {
        Ok(root) => format!("{root}/mg"),
        Err(_) => format!("/verif/work/mg-{}", std::process::id()),
    };
    std::fs::create_dir_all(&d).ok();
    d
}

/// `bads`: (source, start, length) — the lines start..start+length of that source are not JSON ("bad <src>-<i>"):
/// the generator yields them as `Err` items, which are items like any other (C07 counts every item)
fn is_bad(bads: &[(u64, u64, u64)], k: u64, i: u64) -> bool {
    bads.iter().any(|&(s, st, l)| s == k && st <= i && i < st + l)
}

fn sources(lens: &[u64], bads: &[(u64, u64, u64)]) -> Result<Vec<TrainDataGenerator>, String> {
    let dir = tmp();
    let mut v = vec![];
    for (k, &n) in lens.iter().enumerate() {
        let tag: String = bads.iter().filter(|b| b.0 == k as u64).map(|b| format!("-{}_{}", b.1, b.2)).collect();
        let path = format!("{dir}/src-{k}-{n}{tag}.jsonl");
        // an entry (source, mode, 0): the file of that source does not end with a line feed (mode 0), or ends with a
        // blank instead of a line feed (mode 1)
        let unterminated = bads.iter().find(|b| b.0 == k as u64 && b.2 == 0 && b.1 <= 1).map(|b| b.1);
        // an entry (source, L, 0) with L >= 2: the middle line of that source carries an extra field of L bytes (a
        // line longer than the reader's buffer, longer than any fixed limit)
        let long = bads.iter().find(|b| b.0 == k as u64 && b.2 == 0 && b.1 >= 2).map(|b| b.1);
        if !std::path::Path::new(&path).exists() {
            let mut f = std::fs::File::create(&path).map_err(|e| e.to_string())?;
            for i in 0..n {
                // lines that give no item: not JSON, JSON without the key 'input', JSON that is not an object
                let line = if is_bad(bads, k as u64, i) {
                    match (i + k as u64) % 3 {
                        0 => format!("bad {k}-{i}"),
                        1 => format!("{{\"text\": \"bad {k}-{i}\"}}"),
                        _ => format!("[\"bad {k}-{i}\"]"),
                    }
                } else if long.is_some() && i == n / 2 {
                    format!("{{\"pad\": \"{}\", \"input\": \"{k}-{i}\"}}", "x".repeat(long.unwrap() as usize))
                } else {
                    format!("{{\"input\": \"{k}-{i}\"}}")
                };
                let end = match unterminated {
                    Some(m) if i + 1 == n => if m == 1 { " " } else { "" },
                    _ => "\n",
                };
                write!(f, "{line}{end}").map_err(|e| e.to_string())?;
            }
        }
        v.push(train_data_generator_from_jsonl(&path).map_err(|e| e.to_string())?);
    }
    Ok(v)
}

fn strat(s: u64) -> Result<GenerationStrategy, String> {
    Ok(match s {
        0 => GenerationStrategy::Sequential,
        1 => GenerationStrategy::Interleaved,
        2 => GenerationStrategy::Weighted,
        _ => return Err("bad strategy".into()),
    })
}

/// drains the generator; every item is "<src>-<k>" (an `Err` item carries the line in its message); returns
/// (k, src tag, text, is_err)
fn drain(lens: &[u64], bads: &[(u64, u64, u64)], s: GenerationStrategy, seed: u64) -> Result<Result<Vec<(u64, u64, String, bool)>, String>, String> {
    let gens = sources(lens, bads)?;
    let g = match MultiTrainDataGenerator::new(gens, s, Some(seed)) {
        Ok(g) => g,
        Err(e) => return Ok(Err(e.to_string())),
    };
    let total: u64 = lens.iter().sum();
    let mut out = vec![];
    for (item, src) in g {
        let (input, is_err) = match item {
            Ok(item) => (item.verif_input().to_string(), false),
            Err(e) => {
                let m = format!("{e:#}");
                // "bad <src>-<i>", or a JSON line that lost its last byte (a file without a final line feed)
                // (an error item that is no line of any source is kept, with an impossible index: the oracle reports it)
                let line = m.split("bad ").nth(1).or_else(|| m.split("\"input\": \"").nth(1)).unwrap_or("?-18446744073709551615");
                (line.split(|c: char| c == ':' || c == '"' || c.is_whitespace()).next().unwrap_or("").to_string(), true)
            }
        };
        let k: u64 = input.split('-').nth(1).and_then(|x| x.parse().ok()).unwrap_or(u64::MAX);
        out.push((k, src as u64, input, is_err));
        if out.len() as u64 > total + 5 {
            break;
        }
    }
    Ok(Ok(out))
}

fn rd_bads(r: &mut Rd) -> Result<Vec<(u64, u64, u64)>, String> {
    r.list(|r| Ok((r.nat()?, r.nat()?, r.nat()?)))
}

/// `lossylines`: the line reader of the sources on one file given as its bytes: the number of lines `count_lines`
/// declares (through the generator's `len()`), then the byte content of every line the reader yields
fn exec_lossylines(a: &[u64]) -> Result<Outcome, String> {
    use text_utils::data::loading::LossyUtf8Reader;
    let mut r = Rd::new(a);
    let bytes = r.bytes()?;
    r.end()?;
    if std::str::from_utf8(&bytes).is_err() {
        return Err("file is not UTF-8 (the lossy decoding is not modelled)".into());
    }
    if !bytes.is_empty() && std::str::from_utf8(&bytes[..bytes.len() - 1]).is_err() {
        return Err("the file ends inside... its last character has several bytes and no line feed follows: the reader drops the last byte, what remains is decoded lossily (not modelled)".into());
    }
    let path = format!("{}/lines-{}.jsonl", tmp(), std::process::id());
    std::fs::write(&path, &bytes).map_err(|e| e.to_string())?;
    let f = std::fs::File::open(&path).map_err(|e| e.to_string())?;
    let lines: Vec<String> = LossyUtf8Reader::new(std::io::BufReader::new(f)).lines().collect::<Result<_, _>>().map_err(|e| e.to_string())?;
    let g = train_data_generator_from_jsonl(&path).map_err(|e| e.to_string())?;
    let declared = g.len();
    let yielded = g.count();
    let mut v = vec![declared as u64, lines.len() as u64];
    for l in &lines {
        enc_bytes(&mut v, l.as_bytes());
    }
    let mut o = Outcome::new(ok(v));
    // C07 speaks of "each item of each source": the declared length of a source is the number of items it yields
    o.check(declared == yielded && yielded == lines.len(), "the declared length of a file source is not the number of items it yields");
    o.check(lines.iter().all(|l| !l.contains('\n')), "a yielded line contains a line feed");
    // every byte of the file is in a line or is a line terminator (\n, \r\n) -- except that the reader drops the last
    // byte of a file without a final line feed (stated as the theorem lossyLines_unterminated; outside C07)
    if bytes.is_empty() || bytes.last() == Some(&b'\n') {
        let want: Vec<&str> = std::str::from_utf8(&bytes).unwrap().split_terminator('\n').map(|l| l.strip_suffix('\r').unwrap_or(l)).collect();
        o.check(lines.iter().map(|x| x.as_str()).collect::<Vec<_>>() == want, "the lines of a file that ends with a line feed are not its lines without their terminators");
    }
    Ok(o)
}

/// `mgskip s lens k w`: the generator advanced with `skip(k).step_by(w)` (`Iterator::nth`) instead of `next()`
fn exec_skip(a: &[u64]) -> Result<Outcome, String> {
    let mut r = Rd::new(a);
    let s = r.nat()?;
    let lens = r.nats()?;
    let k = r.usize()?;
    let w = r.usize()?;
    r.end()?;
    if w == 0 {
        return Err("step 0".into());
    }
    let plain = match drain(&lens, &[], strat(s)?, 3)? {
        Ok(o) => o,
        Err(_) => return Ok(Outcome::new("err zero-length".to_string())),
    };
    let gens = sources(&lens, &[])?;
    let g = MultiTrainDataGenerator::new(gens, strat(s)?, Some(3)).map_err(|e| e.to_string())?;
    let mut got: Vec<(u64, u64)> = vec![];
    for (item, src) in g.skip(k).step_by(w) {
        let input = item.map(|i| i.verif_input().to_string()).unwrap_or_default();
        let kk: u64 = input.split('-').nth(1).and_then(|x| x.parse().ok()).unwrap_or(u64::MAX);
        got.push((kk, src as u64));
        if got.len() > plain.len() + 5 {
            break;
        }
    }
    let mut v = vec![got.len() as u64];
    for (kk, src) in &got {
        v.push(*kk);
        v.push(*src);
    }
    let mut o = Outcome::new(ok(v));
    let want: Vec<(u64, u64)> = plain.iter().skip(k).step_by(w).map(|x| (x.0, x.1)).collect();
    o.check(got == want, "skip(k) / step_by(w) on the generator does not give the items k, k + w, ... of its plain iteration (an item is yielded twice or never when the ranks of a world stride over it)");
    Ok(o)
}

pub fn exec(op: &str, a: &[u64]) -> Result<Outcome, String> {
    if op == "lossylines" {
        return exec_lossylines(a);
    }
    if op == "mgskip" {
        return exec_skip(a);
    }
    let mut r = Rd::new(a);
    // mgdetb / mgwb: the same with runs of unparseable lines (Err items) in the sources
    let (s, lens, seed, tags_req, bads) = match op {
        "mgdet" | "mgdetb" => {
            let s = r.nat()?;
            let lens = r.nats()?;
            let bads = if op == "mgdetb" { rd_bads(&mut r)? } else { vec![] };
            (s, lens, 0, None, bads)
        }
        "mgw" | "mgwb" => {
            let lens = r.nats()?;
            let seed = r.nat()?;
            let tags = r.nats()?;
            let bads = if op == "mgwb" { rd_bads(&mut r)? } else { vec![] };
            (2, lens, seed, Some(tags), bads)
        }
        _ => return Err(format!("unknown op {op}")),
    };
    r.end()?;
    let res = drain(&lens, &bads, strat(s)?, seed)?;
    let out = match res {
        Ok(o) => o,
        Err(_) => {
            let mut o = Outcome::new("err zero-length".to_string());
            o.check(s == 2 && lens.iter().any(|&l| l == 0), "constructor failed on valid sources");
            return Ok(o);
        }
    };
    let mut o = if let Some(tags) = &tags_req {
        if *tags != out.iter().map(|x| x.1).collect::<Vec<_>>() {
            return Err("tags in request are not what the implementation yields".into());
        }
        Outcome::new("accept".to_string())
    } else {
        let mut v = vec![out.len() as u64];
        for (k, src, _, _) in &out {
            v.push(*k);
            v.push(*src);
        }
        Outcome::new(ok(v))
    };
    // C07 oracle
    let total: u64 = lens.iter().sum();
    o.check(out.len() as u64 == total, "number of yielded items != total number of items");
    let mut seen = vec![0u64; lens.len()];
    for (k, src, input, is_err) in &out {
        let sidx = *src as usize;
        // (the last line of a file without a final line feed may come as an error item: the line reader drops its last byte)
        let last_unterminated = bads.iter().any(|b| b.0 == *src && b.2 == 0 && b.1 == 0) && *k + 1 == lens[sidx.min(lens.len() - 1)];
        o.check(last_unterminated || *is_err == is_bad(&bads, *src, *k), "an unparseable line is not yielded as an error item (or a valid line is)");
        o.check(sidx < lens.len() && *input == format!("{src}-{k}"), "item tagged with a wrong source index");
        if sidx < lens.len() {
            o.check(*k == seen[sidx], "per-source order violated / item repeated");
            seen[sidx] += 1;
        }
    }
    o.check(seen == lens, "not every item of every source was yielded exactly once");
    match s {
        0 => o.check(out.windows(2).all(|w| w[0].1 <= w[1].1), "sequential does not visit the sources one after another"),
        1 => {
            // round robin over the sources that still have items
            let mut want = vec![];
            let maxl = lens.iter().copied().max().unwrap_or(0);
            for row in 0..maxl {
                for (k, &l) in lens.iter().enumerate() {
                    if row < l {
                        want.push((row, k as u64));
                    }
                }
            }
            o.check(out.iter().map(|x| (x.0, x.1)).collect::<Vec<_>>() == want, "interleaved is not round robin over the sources that still have items");
        }
        _ => {
            let again = drain(&lens, &bads, strat(s)?, seed)?.map_err(|e| e)?;
            o.check(again == out, "weighted is not reproducible from the seed");
        }
    }
    Ok(o)
}

fn emit(ctx: &mut Ctx, s: u64, lens: &[u64], seed: u64) {
    emit_b(ctx, s, lens, seed, &[])
}

fn emit_b(ctx: &mut Ctx, s: u64, lens: &[u64], seed: u64, bads: &[(u64, u64, u64)]) {
    let enc_bads = |v: &mut Vec<u64>| {
        v.push(bads.len() as u64);
        for b in bads {
            v.extend([b.0, b.1, b.2]);
        }
    };
    if s < 2 {
        let mut v = vec![s];
        enc_nats(&mut v, lens.iter().copied());
        if !bads.is_empty() {
            enc_bads(&mut v);
        }
        ctx.case(if bads.is_empty() { "mgdet" } else { "mgdetb" }, &v);
    } else {
        let mut v = vec![];
        enc_nats(&mut v, lens.iter().copied());
        v.push(seed);
        // (a panic of the generator is reproduced, and reported, by the exec side)
        match std::panic::catch_unwind(|| drain(lens, bads, GenerationStrategy::Weighted, seed)) {
            Ok(Ok(Ok(out))) => enc_nats(&mut v, out.iter().map(|x| x.1)),
            _ => v.push(0),
        }
        if !bads.is_empty() {
            enc_bads(&mut v);
        }
        ctx.case(if bads.is_empty() { "mgw" } else { "mgwb" }, &v);
    }
}

pub fn run_c07(ctx: &mut Ctx) {
    ctx.case_timeout = std::time::Duration::from_secs(90);
    if ctx.first_shard() {
        for s in 0..3 {
            for lens in [vec![1u64], vec![3], vec![2, 0, 3], vec![0, 0], vec![0], vec![1, 5], vec![5, 1], vec![2, 2, 2]] {
                emit(ctx, s, &lens, 1);
            }
        }
    }
    if ctx.first_shard() {
        // one very large source beside very small ones (ratios above 2^16): sampling weights that are rounded,
        // scaled to a fixed total or held in a narrow type lose the small source
        let big: &[&[u64]] = if ctx.thorough { &[&[66000, 1], &[1, 66000], &[3, 200000, 2], &[140000, 2], &[1, 1, 70000]] } else { &[&[66000, 1], &[1, 66000]] };
        for lens in big {
            emit(ctx, 2, lens, 7);
        }
        if ctx.thorough {
            emit(ctx, 1, &[66000, 1], 0);
            emit(ctx, 0, &[1, 66000], 0);
        }
    }
    if ctx.first_shard() {
        // very long lines: longer than the line reader's buffer (8 KiB), 1 MiB, 17 MiB
        let longs: &[u64] = if ctx.thorough { &[9000, 70_000, 1 << 20, 17 << 20, 33 << 20] } else { &[9000, 17 << 20] };
        for &l in longs {
            for s in 0..3 {
                emit_b(ctx, s, &[3, 2], 5, &[(0, l, 0)]);
            }
        }
    }
    if ctx.thorough && ctx.first_shard() {
        // exhaustive: all length vectors of 1..4 sources with lengths 0..4, three strategies
        for n in 1..=4usize {
            let mut v = vec![0u64; n];
            loop {
                for s in 0..3 {
                    emit(ctx, s, &v, 3);
                }
                let mut i = 0;
                while i < n {
                    v[i] += 1;
                    if v[i] <= 4 {
                        break;
                    }
                    v[i] = 0;
                    i += 1;
                }
                if i == n {
                    break;
                }
            }
        }
    }
    let n = ctx.budget(600, 20000);
    for i in 0..n {
        // mostly 1-6 sources; sometimes many (bit masks / small fixed-size tables overflow at 32, 64, 128, 255 sources)
        let k = if i % 40 == 7 { [31u64, 33, 63, 64, 65, 70, 129, 257][ctx.rng.random_range(0..8)] } else { ctx.rng.random_range(1..=6) };
        let lens: Vec<u64> = (0..k).map(|_| if ctx.rng.random_bool(0.15) { 0 } else { ctx.rng.random_range(1..=if i % 7 == 0 { 30 } else { 6 }) }).collect();
        let s = ctx.rng.random_range(0..3);
        let seed = crate::gen::seed(&mut ctx.rng);
        if i % 3 == 2 && k <= 6 {
            // the access pattern of the train loader: skip(skip + rank).step_by(world size)
            let total: u64 = lens.iter().sum();
            let mut v = vec![s % 2];
            enc_nats(&mut v, lens.iter().copied());
            v.push(ctx.rng.random_range(0..=total + 1));
            v.push(ctx.rng.random_range(1..=4));
            ctx.case("mgskip", &v);
        }
        if i % 4 == 1 {
            // runs of unparseable lines (Err items are items): short and long runs (1..40 lines), at the start, in
            // the middle and at the end of a source, in one or several sources
            let lens: Vec<u64> = lens.iter().map(|&l| if l > 0 && ctx.rng.random_bool(0.5) { l + ctx.rng.random_range(0..40) } else { l }).collect();
            let mut bads = vec![];
            for (k, &l) in lens.iter().enumerate() {
                if l > 0 && (bads.is_empty() || ctx.rng.random_bool(0.3)) && bads.len() < 4 {
                    let run = [1u64, 2, 7, 8, 9, 16, 33, 40][ctx.rng.random_range(0..8)].min(l);
                    let start = match ctx.rng.random_range(0..3) {
                        0 => 0,
                        1 => l - run,
                        _ => ctx.rng.random_range(0..=l - run),
                    };
                    bads.push((k as u64, start, run));
                }
            }
            emit_b(ctx, s, &lens, seed, &bads);
        } else if i % 4 == 2 {
            // files that do not end with a line feed (plain, or with a blank in its place), also single-record files
            let lens: Vec<u64> = lens.iter().map(|&l| if ctx.rng.random_bool(0.3) { 1 } else { l }).collect();
            let mut bads = vec![];
            for (k, &l) in lens.iter().enumerate() {
                if l > 0 && (bads.is_empty() || ctx.rng.random_bool(0.5)) {
                    bads.push((k as u64, ctx.rng.random_range(0..2u64), 0));
                }
            }
            emit_b(ctx, s, &lens, seed, &bads);
        } else {
            emit(ctx, s, &lens, seed);
        }
    }
    // the line reader itself: files as byte strings with every mix of line feeds, carriage returns, empty lines,
    // with and without a final line feed
    let nl = ctx.budget(300, 20000);
    for _ in 0..nl {
        let mut b: Vec<u8> = vec![];
        for _ in 0..ctx.rng.random_range(0..=10) {
            match ctx.rng.random_range(0..10) {
                0 | 1 | 2 => b.push(b'\n'),
                3 => b.push(b'\r'),
                4 => b.extend(b"\r\n"),
                5 => b.extend("\u{e4}".as_bytes()),
                6 => b.extend(b"{\"input\": \"x\"}"),
                _ => b.push(b'a' + ctx.rng.random_range(0..3u8)),
            }
        }
        if b.last().map(|x| *x >= 0x80).unwrap_or(false) {
            b.push(b'c');
        }
        let mut v = vec![];
        enc_bytes(&mut v, &b);
        ctx.case("lossylines", &v);
    }
    std::fs::remove_dir_all(tmp()).ok();
}
