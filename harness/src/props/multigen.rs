//! C07 — multi-source generator
use crate::ctx::{Ctx, Outcome};
use crate::wire::*;
use rand::Rng;
use std::io::Write;
use text_utils::data::loading::{train_data_generator_from_jsonl, GenerationStrategy, MultiTrainDataGenerator, TrainDataGenerator};

fn tmp() -> String {
    // inside the run directory of this shard (removed by ./check with it); replays fall back to /verif/work
    let d = match std::env::var("TU_HARNESS_TMP") {
        Ok(root) => format!("{root}/mg"),
        Err(_) => format!("/verif/work/mg-{}", std::process::id()),
    };
    std::fs::create_dir_all(&d).ok();
    d
}

fn sources(lens: &[u64]) -> Result<Vec<TrainDataGenerator>, String> {
    let dir = tmp();
    let mut v = vec![];
    for (k, &n) in lens.iter().enumerate() {
        let path = format!("{dir}/src-{k}-{n}.jsonl");
        if !std::path::Path::new(&path).exists() {
            let mut f = std::fs::File::create(&path).map_err(|e| e.to_string())?;
            for i in 0..n {
                writeln!(f, "{{\"input\": \"{k}-{i}\"}}").map_err(|e| e.to_string())?;
            }
        }
        v.push(train_data_generator_from_jsonl(&path).map_err(|e| e.to_string())?);
    }
    Ok(v)
}

fn strat(s: u64) -> Result<GenerationStrategy, String> {
    Ok(match s {
        0 => GenerationStrategy::Sequential,
        1 => GenerationStrategy::Interleaved,
        2 => GenerationStrategy::Weighted,
        _ => return Err("bad strategy".into()),
    })
}

/// drains the generator; every item is "<src>-<k>"; returns (k, src tag) pairs
fn drain(lens: &[u64], s: GenerationStrategy, seed: u64) -> Result<Result<Vec<(u64, u64, String)>, String>, String> {
    let gens = sources(lens)?;
    let g = match MultiTrainDataGenerator::new(gens, s, Some(seed)) {
        Ok(g) => g,
        Err(e) => return Ok(Err(e.to_string())),
    };
    let total: u64 = lens.iter().sum();
    let mut out = vec![];
    for (item, src) in g {
        let item = item.map_err(|e| e.to_string())?;
        let input = item.verif_input().to_string();
        let k: u64 = input.split('-').nth(1).and_then(|x| x.parse().ok()).ok_or("bad item")?;
        out.push((k, src as u64, input));
        if out.len() as u64 > total + 5 {
            break;
        }
    }
    Ok(Ok(out))
}

pub fn exec(op: &str, a: &[u64]) -> Result<Outcome, String> {
    let mut r = Rd::new(a);
    let (s, lens, seed, tags_req) = match op {
        "mgdet" => {
            let s = r.nat()?;
            let lens = r.nats()?;
            (s, lens, 0, None)
        }
        "mgw" => {
            let lens = r.nats()?;
            let seed = r.nat()?;
            let tags = r.nats()?;
            (2, lens, seed, Some(tags))
        }
        _ => return Err(format!("unknown op {op}")),
    };
    r.end()?;
    let res = drain(&lens, strat(s)?, seed)?;
    let out = match res {
        Ok(o) => o,
        Err(_) => {
            let mut o = Outcome::new("err zero-length".to_string());
            o.check(s == 2 && lens.iter().any(|&l| l == 0), "constructor failed on valid sources");
            return Ok(o);
        }
    };
    let mut o = if let Some(tags) = &tags_req {
        if *tags != out.iter().map(|x| x.1).collect::<Vec<_>>() {
            return Err("tags in request are not what the implementation yields".into());
        }
        Outcome::new("accept".to_string())
    } else {
        let mut v = vec![out.len() as u64];
        for (k, src, _) in &out {
            v.push(*k);
            v.push(*src);
        }
        Outcome::new(ok(v))
    };
    // C07 oracle
    let total: u64 = lens.iter().sum();
    o.check(out.len() as u64 == total, "number of yielded items != total number of items");
    let mut seen = vec![0u64; lens.len()];
    for (k, src, input) in &out {
        let sidx = *src as usize;
        o.check(sidx < lens.len() && *input == format!("{src}-{k}"), "item tagged with a wrong source index");
        if sidx < lens.len() {
            o.check(*k == seen[sidx], "per-source order violated / item repeated");
            seen[sidx] += 1;
        }
    }
    o.check(seen == lens, "not every item of every source was yielded exactly once");
    match s {
        0 => o.check(out.windows(2).all(|w| w[0].1 <= w[1].1), "sequential does not visit the sources one after another"),
        1 => {
            // round robin over the sources that still have items
            let mut want = vec![];
            let maxl = lens.iter().copied().max().unwrap_or(0);
            for row in 0..maxl {
                for (k, &l) in lens.iter().enumerate() {
                    if row < l {
                        want.push((row, k as u64));
                    }
                }
            }
            o.check(out.iter().map(|x| (x.0, x.1)).collect::<Vec<_>>() == want, "interleaved is not round robin over the sources that still have items");
        }
        _ => {
            let again = drain(&lens, strat(s)?, seed)?.map_err(|e| e)?;
            o.check(again == out, "weighted is not reproducible from the seed");
        }
    }
    Ok(o)
}

fn emit(ctx: &mut Ctx, s: u64, lens: &[u64], seed: u64) {
    if s < 2 {
        let mut v = vec![s];
        enc_nats(&mut v, lens.iter().copied());
        ctx.case("mgdet", &v);
    } else {
        let mut v = vec![];
        enc_nats(&mut v, lens.iter().copied());
        v.push(seed);
        match drain(lens, GenerationStrategy::Weighted, seed) {
            Ok(Ok(out)) => enc_nats(&mut v, out.iter().map(|x| x.1)),
            _ => v.push(0),
        }
        ctx.case("mgw", &v);
    }
}

pub fn run_c07(ctx: &mut Ctx) {
    ctx.case_timeout = std::time::Duration::from_secs(90);
    if ctx.first_shard() {
        for s in 0..3 {
            for lens in [vec![1u64], vec![3], vec![2, 0, 3], vec![0, 0], vec![0], vec![1, 5], vec![5, 1], vec![2, 2, 2]] {
                emit(ctx, s, &lens, 1);
            }
        }
    }
    if ctx.thorough && ctx.first_shard() {
        // exhaustive: all length vectors of 1..4 sources with lengths 0..4, three strategies
        for n in 1..=4usize {
            let mut v = vec![0u64; n];
            loop {
                for s in 0..3 {
                    emit(ctx, s, &v, 3);
                }
                let mut i = 0;
                while i < n {
                    v[i] += 1;
                    if v[i] <= 4 {
                        break;
                    }
                    v[i] = 0;
                    i += 1;
                }
                if i == n {
                    break;
                }
            }
        }
    }
    let n = ctx.budget(600, 20000);
    for i in 0..n {
        // mostly 1-6 sources; sometimes many (bit masks / small fixed-size tables overflow at 32, 64, 128, 255 sources)
        let k = if i % 40 == 7 { [31u64, 33, 63, 64, 65, 70, 129, 257][ctx.rng.random_range(0..8)] } else { ctx.rng.random_range(1..=6) };
        let lens: Vec<u64> = (0..k).map(|_| if ctx.rng.random_bool(0.15) { 0 } else { ctx.rng.random_range(1..=if i % 7 == 0 { 30 } else { 6 }) }).collect();
        let s = ctx.rng.random_range(0..3);
        let seed = crate::gen::seed(&mut ctx.rng);
        emit(ctx, s, &lens, seed);
    }
    std::fs::remove_dir_all(tmp()).ok();
}
