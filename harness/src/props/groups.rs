//! C17 — token groups -> sparse COO matrix, padding mask, padded id / label matrices
use crate::ctx::{Ctx, Outcome};
use crate::props::tok::{build, emit_tok, rand_common, tok_text, Kind};
use crate::wire::*;
use rand::Rng;
use text_utils::data::loading::Tensorize;
use text_utils::data::{TrainData, TrainItem, TrainTaskInput};
use text_utils::tokenization::{padding_mask, token_groups_to_sparse_coo_matrix, GroupAggregation, Grouping, TokenGroup, TokenizationInfo};

fn rd_group(r: &mut Rd) -> R<TokenGroup> {
    Ok(match r.nat()? {
        0 => TokenGroup::Full(r.usize()?),
        1 => TokenGroup::Nested(r.nats()?.into_iter().map(|n| TokenGroup::Full(n as usize)).collect()),
        _ => return Err("bad group".into()),
    })
}

pub fn enc_group(v: &mut Vec<u64>, g: &TokenGroup) {
    match g {
        TokenGroup::Full(n) => v.extend([0, *n as u64]),
        TokenGroup::Nested(gs) => {
            v.push(1);
            v.push(gs.len() as u64);
            for x in gs {
                v.push(x.len() as u64);
            }
        }
        TokenGroup::Empty(n) => v.extend([0, *n as u64]),
    }
}

pub fn exec(op: &str, a: &[u64]) -> Result<Outcome, String> {
    if op == "bytetok" {
        // the groups themselves: exact correspondence with the model of ByteTokenizer::process_input and the
        // oracle "lengths sum to the number of ids, one group per character / special / prefix / suffix token"
        return crate::props::tok::exec(op, a);
    }
    let mut r = Rd::new(a);
    match op {
        "coo" => {
            let gs: Vec<Grouping> = r.list(|r| {
                let mean = r.bool()?;
                let g = r.list(rd_group)?;
                Ok((g, if mean { GroupAggregation::Mean } else { GroupAggregation::Sum }))
            })?;
            let lengths: Vec<usize> = r.nats()?.into_iter().map(|x| x as usize).collect();
            r.end()?;
            let refs: Vec<&Grouping> = gs.iter().collect();
            let coo = token_groups_to_sparse_coo_matrix(&refs, &lengths).map_err(|e| e.to_string())?;
            let (idx, (rows, cols), vals, size, glens) = coo.verif_parts();
            let mask = padding_mask(&glens);
            let mut out = String::from("ok");
            let push = |out: &mut String, x: u64| {
                out.push(' ');
                out.push_str(&x.to_string());
            };
            if rows != 3 {
                return Err("indices do not have 3 rows".into());
            }
            for rw in 0..3 {
                push(&mut out, cols as u64);
                for c in 0..cols {
                    push(&mut out, idx[rw * cols + c] as u64);
                }
            }
            push(&mut out, vals.len() as u64);
            for v in &vals {
                out.push_str(&format!(" g:{v:e}"));
            }
            push(&mut out, size.len() as u64);
            for s in &size {
                push(&mut out, *s as u64);
            }
            push(&mut out, glens.len() as u64);
            for s in &glens {
                push(&mut out, *s as u64);
            }
            push(&mut out, mask.nrows() as u64);
            for row in mask.rows() {
                push(&mut out, row.len() as u64);
                for b in row {
                    push(&mut out, *b as u64);
                }
            }
            let mut o = Outcome::new(out);
            // C17 oracle
            let total: usize = lengths.iter().sum();
            o.check(cols == total && vals.len() == total, "not exactly one entry per token");
            o.check(size.len() == 3, "size is not 3-dimensional");
            if size.len() == 3 {
                for c in 0..cols {
                    let (b, g, t) = (idx[c], idx[cols + c], idx[2 * cols + c]);
                    o.check(b >= 0 && (b as usize) < size[0] && g >= 0 && (g as usize) < size[1] && t >= 0 && (t as usize) < size[2], "index outside the declared size");
                }
            }
            // per (batch, group): weights sum to one for mean, all ones for sum
            let mut sums: std::collections::BTreeMap<(i32, i32), f64> = Default::default();
            for c in 0..cols {
                *sums.entry((idx[c], idx[cols + c])).or_insert(0.0) += vals[c] as f64;
                if gs[idx[c] as usize].1 == GroupAggregation::Sum {
                    o.check(vals[c] == 1.0, "sum aggregation weight is not 1");
                }
            }
            for ((b, _), s) in &sums {
                if gs[*b as usize].1 == GroupAggregation::Mean {
                    o.check((s - 1.0).abs() < 1e-5, "mean aggregation weights of a group do not sum to one");
                }
            }
            o.check(glens == gs.iter().map(|g| g.0.len()).collect::<Vec<_>>(), "group_lengths are not the numbers of groups");
            Ok(o)
        }
        "padids" => {
            // through Batch<TrainItem>::tensorize (sequence classification: ids padded with pad, labels with -1)
            let pad = r.nat()? as u32;
            let rows: Vec<Vec<u32>> = r.list(|r| Ok(r.nats()?.into_iter().map(|x| x as u32).collect()))?;
            r.end()?;
            if rows.is_empty() {
                return Ok(Outcome::new(ok([0, 0])));
            }
            let batch: Vec<TrainItem> = rows
                .iter()
                .map(|ids| {
                    TrainItem::new(
                        TrainData::new("x".into(), None),
                        TrainTaskInput::SequenceClassification { token_ids: ids.clone(), pad_token_id: pad, labels: ids.iter().map(|x| *x as i32 + 7).collect() },
                    )
                })
                .collect();
            let t = batch.tensorize();
            let (ids, lens, labels, _) = t.verif_view();
            let mut v = vec![ids.len() as u64];
            for row in &ids {
                enc_nats(&mut v, row.iter().map(|x| *x as u64));
            }
            enc_nats(&mut v, lens.iter().map(|x| *x as u64));
            let mut o = Outcome::new(ok(v));
            let m = rows.iter().map(|r| r.len()).max().unwrap_or(0);
            for (i, row) in rows.iter().enumerate() {
                o.check(ids[i].len() == m && ids[i][..row.len()] == row[..] && ids[i][row.len()..].iter().all(|x| *x == pad), "padded id row is not the item's ids followed only by padding");
                o.check(lens[i] == row.len(), "reported length is not the true length");
                o.check(labels[i].len() == m && labels[i][..row.len()].iter().zip(row).all(|(l, x)| *l == *x as i32 + 7) && labels[i][row.len()..].iter().all(|l| *l == -1), "padded label row is not the item's labels followed only by -1");
            }
            Ok(o)
        }
        "tensorize" => {
            // all four task kinds through Batch<TrainItem>::tensorize; labels travel shifted by one (padding -1 = 0)
            let kind = r.nat()?;
            let pad = r.nat()? as u32;
            let tpad = r.nat()? as u32;
            let rows: Vec<Vec<u32>> = r.list(|r| Ok(r.nats()?.into_iter().map(|x| x as u32).collect()))?;
            let trows: Vec<Vec<u32>> = r.list(|r| Ok(r.nats()?.into_iter().map(|x| x as u32).collect()))?;
            let lrows: Vec<Vec<i32>> = r.list(|r| Ok(r.nats()?.into_iter().map(|x| x as i32 - 1).collect()))?;
            r.end()?;
            if rows.is_empty() || trows.len() != rows.len() || lrows.len() != rows.len() || kind > 3 {
                return Err("bad tensorize request".into());
            }
            if kind == 0 && lrows.iter().any(|l| l.len() != 1) {
                return Err("classification needs one label per item".into());
            }
            let batch: Vec<TrainItem> = (0..rows.len())
                .map(|i| {
                    let input = match kind {
                        0 => TrainTaskInput::Classification { token_ids: rows[i].clone(), pad_token_id: pad, label: lrows[i][0] },
                        1 => TrainTaskInput::SequenceClassification { token_ids: rows[i].clone(), pad_token_id: pad, labels: lrows[i].clone() },
                        2 => TrainTaskInput::Generation { token_ids: rows[i].clone(), pad_token_id: pad, labels: lrows[i].clone() },
                        _ => TrainTaskInput::ConditionalGeneration {
                            token_ids: rows[i].clone(),
                            pad_token_id: pad,
                            target_token_ids: trows[i].clone(),
                            target_pad_token_id: tpad,
                            labels: lrows[i].clone(),
                        },
                    };
                    TrainItem::new(TrainData::new("x".into(), None), input)
                })
                .collect();
            let t = batch.tensorize();
            let (ids, lens, labels, target) = t.verif_view();
            let mut v = vec![ids.len() as u64];
            for row in &ids {
                enc_nats(&mut v, row.iter().map(|x| *x as u64));
            }
            enc_nats(&mut v, lens.iter().map(|x| *x as u64));
            v.push(labels.len() as u64);
            for row in &labels {
                enc_nats(&mut v, row.iter().map(|x| (*x + 1) as u64));
            }
            let mut o;
            match &target {
                Some((tm, tl)) => {
                    v.push(1);
                    v.push(tm.len() as u64);
                    for row in tm {
                        enc_nats(&mut v, row.iter().map(|x| *x as u64));
                    }
                    enc_nats(&mut v, tl.iter().map(|x| *x as u64));
                    o = Outcome::new(ok(v));
                    let m = trows.iter().map(|r| r.len()).max().unwrap_or(0);
                    for (i, row) in trows.iter().enumerate() {
                        o.check(tm[i].len() == m && tm[i][..row.len()] == row[..] && tm[i][row.len()..].iter().all(|x| *x == tpad), "padded target id row is not the item's target ids followed only by the target padding");
                        o.check(tl[i] == row.len(), "reported target length is not the true length");
                    }
                    o.check(kind == 3, "target matrix for a task without targets");
                }
                None => {
                    v.push(0);
                    o = Outcome::new(ok(v));
                    o.check(kind != 3, "no target matrix for conditional generation");
                }
            }
            let m = rows.iter().map(|r| r.len()).max().unwrap_or(0);
            for (i, row) in rows.iter().enumerate() {
                o.check(ids[i].len() == m && ids[i][..row.len()] == row[..] && ids[i][row.len()..].iter().all(|x| *x == pad), "padded id row is not the item's ids followed only by padding");
                o.check(lens[i] == row.len(), "reported length is not the true length");
            }
            if kind == 0 {
                o.check(labels.iter().zip(&lrows).all(|(a, b)| a == b), "classification labels differ");
            } else {
                let ml = lrows.iter().map(|r| r.len()).max().unwrap_or(0);
                for (i, row) in lrows.iter().enumerate() {
                    o.check(labels[i].len() == ml && labels[i][..row.len()] == row[..] && labels[i][row.len()..].iter().all(|l| *l == -1), "padded label row is not the item's labels followed only by -1");
                }
            }
            Ok(o)
        }
        _ => Err(format!("unknown op {op}")),
    }
}

pub fn run_c17(ctx: &mut Ctx) {
    let n = ctx.budget(500, 20000);
    for _ in 0..n {
        // batches of 1–6 real byte tokenisations
        let k = ctx.rng.random_range(1..=6);
        let mut v = vec![k as u64];
        let mut lengths = vec![];
        // the aggregation is a property of the ITEM (every grouping carries its own): half of the batches mix the two
        let batch_mean = ctx.rng.random_bool(0.7);
        let mixed = ctx.rng.random_bool(0.5);
        for _ in 0..k {
            let mean = if mixed { ctx.rng.random_bool(0.5) } else { batch_mean };
            let c = rand_common(ctx, false);
            // (vocabulary padding only adds special tokens: ids and groups must not depend on it)
            let kind = Kind::Byte { cp_groups: ctx.rng.random_bool(0.5), pad_to: [None, None, Some(8), Some(128), Some(16), Some(1)][ctx.rng.random_range(0..6)] };
            let mut s = tok_text(ctx, 8, &c.tokens);
            if ctx.rng.random_range(0..3) == 0 {
                // multi-byte / multi-code-point characters inside otherwise plain ASCII text
                let at = ctx.rng.random_range(0..=s.len());
                if s.is_char_boundary(at) {
                    s.insert_str(at, ["\r\n", "a\u{301}", "\u{1F1E9}\u{1F1EA}", "x\r\ny",
                        // clusters on which legacy and extended grapheme segmentation differ (spacing marks, conjuncts, SARA AM)
                        "\u{928}\u{92e}\u{938}\u{94d}\u{924}\u{947}", "\u{915}\u{940}", "\u{e01}\u{e33}", "\u{939}\u{93f}\u{928}\u{94d}\u{926}\u{940}"][ctx.rng.random_range(0..8)]);
                }
            }
            let multi = clusters(&s, true).iter().any(|c| c.len() > 1);
            let Some(b) = build(&kind, &c, multi) else { continue };
            let ign = ctx.rng.random_bool(0.3);
            emit_tok(ctx, "bytetok", &kind, &c, &s, ign, multi);
            let Ok(t) = b.tok.tokenize(&s, ign) else { continue };
            let TokenizationInfo::TokenGroups(m) = &t.info else { continue };
            let (groups, _) = m.values().next().unwrap();
            v.push(mean as u64);
            v.push(groups.len() as u64);
            for g in groups {
                enc_group(&mut v, g);
            }
            lengths.push(t.token_ids.len() as u64);
        }
        v[0] = lengths.len() as u64;
        enc_nats(&mut v, lengths.iter().copied());
        ctx.case("coo", &v);
        // padded matrices
        let rows = ctx.rng.random_range(0..=5);
        let pad = ctx.rng.random_range(0..300u64);
        let mut v = vec![pad, rows];
        for _ in 0..rows {
            let l = ctx.rng.random_range(0..=7);
            enc_nats(&mut v, (0..l).map(|_| ctx.rng.random_range(0..300u64)));
        }
        ctx.case("padids", &v);
        // all four task kinds, with different pad ids on the input and the target side
        let kind = ctx.rng.random_range(0..4u64);
        let rows = ctx.rng.random_range(1..=5);
        let pad = ctx.rng.random_range(0..300u64);
        let tpad = if ctx.rng.random_bool(0.3) { pad } else { ctx.rng.random_range(0..300u64) };
        let mut v = vec![kind, pad, tpad, rows];
        let mut lens = vec![];
        for _ in 0..rows {
            let l = ctx.rng.random_range(0..=7);
            lens.push(l);
            enc_nats(&mut v, (0..l).map(|_| ctx.rng.random_range(0..300u64)));
        }
        v.push(rows);
        let mut tlens = vec![];
        for _ in 0..rows {
            let l = if kind == 3 { ctx.rng.random_range(0..=7) } else { 0 };
            tlens.push(l);
            enc_nats(&mut v, (0..l).map(|_| ctx.rng.random_range(0..300u64)));
        }
        v.push(rows);
        for i in 0..rows as usize {
            // labels: one per item (classification), one per token (sequence tasks), one per target token
            let l = match kind {
                0 => 1,
                3 => tlens[i],
                _ => lens[i],
            };
            // shifted by one: 0 is the label -1 (ignored position), which real labels may contain
            enc_nats(&mut v, (0..l).map(|_| ctx.rng.random_range(0..6u64)));
        }
        ctx.case("tensorize", &v);
    }
}
