//! C06 — batching
use crate::ctx::{Ctx, Outcome};
use crate::wire::*;
use rand::Rng;
use text_utils::data::loading::{BatchLimitType, BatchedIterator, ItemSize};

#[derive(Clone, Debug, PartialEq)]
pub struct It {
    pub id: u64,
    pub size: usize,
}

impl ItemSize for It {
    fn size(&self) -> usize {
        self.size
    }
}

fn run(items: &[It], sort: bool, shuffle: bool, padded: bool, prefetch: usize, limit: usize, seed: u64) -> Vec<Vec<It>> {
    let lt = if padded { BatchLimitType::PaddedItemSize } else { BatchLimitType::BatchSize };
    items.to_vec().into_iter().batched(sort, shuffle, prefetch, limit, lt, Some(seed)).collect()
}

/// count, or count times largest item size — exactly (the product of two usize values fits into a u128)
fn lim_of(padded: bool, b: &[It]) -> u128 {
    if padded {
        b.len() as u128 * b.iter().map(|x| x.size).max().unwrap_or(0) as u128
    } else {
        b.len() as u128
    }
}

pub fn exec(op: &str, a: &[u64]) -> Result<Outcome, String> {
    if op != "batch" {
        return Err(format!("unknown op {op}"));
    }
    let mut r = Rd::new(a);
    let sort = r.bool()?;
    let shuffle = r.bool()?;
    let padded = r.bool()?;
    let prefetch = r.usize()?;
    let limit = r.usize()?;
    let seed = r.nat()?;
    let items: Vec<It> = r.list(|r| Ok(It { id: r.nat()?, size: r.usize()? }))?;
    let obs = r.list(|r| r.nats())?;
    r.end()?;
    let batches = run(&items, sort, shuffle, padded, prefetch, limit, seed);
    let got: Vec<Vec<u64>> = batches.iter().map(|b| b.iter().map(|x| x.id).collect()).collect();
    if got != obs {
        return Err("observed batches in the request are not what the implementation returns".into());
    }
    let mut o = Outcome::new("accept".to_string());
    // C06 oracle, from ids and sizes only
    let mut all: Vec<u64> = got.iter().flatten().copied().collect();
    let flat = all.clone();
    all.sort();
    let mut want: Vec<u64> = items.iter().map(|x| x.id).collect();
    let in_order = want.clone();
    want.sort();
    o.check(all == want, "batches do not partition the items (lost or duplicated item)");
    o.check(batches.iter().all(|b| !b.is_empty()), "empty batch");
    let l = limit.max(1) as u128;
    o.check(batches.iter().all(|b| b.len() <= 1 || lim_of(padded, b) <= l), "batch with more than one item exceeds the limit");
    let again = run(&items, sort, shuffle, padded, prefetch, limit, seed);
    o.check(again == batches, "not a deterministic function of the seed");
    if !sort && !shuffle {
        o.check(flat == in_order, "without sort and shuffle the concatenation is not the input order");
        for w in batches.windows(2) {
            let mut ext = w[0].clone();
            ext.push(w[1][0].clone());
            o.check(lim_of(padded, &ext) > l, "batch is not greedy-maximal");
        }
    }
    Ok(o)
}

pub fn emit(ctx: &mut Ctx, items: &[It], sort: bool, shuffle: bool, padded: bool, prefetch: usize, limit: usize, seed: u64) {
    let mut v = vec![sort as u64, shuffle as u64, padded as u64, prefetch as u64, limit as u64, seed];
    v.push(items.len() as u64);
    for it in items {
        v.push(it.id);
        v.push(it.size as u64);
    }
    // a panic of the implementation is reproduced (and reported with this request) by the exec side
    let batches = std::panic::catch_unwind(|| run(items, sort, shuffle, padded, prefetch, limit, seed)).unwrap_or_default();
    v.push(batches.len() as u64);
    for b in &batches {
        enc_nats(&mut v, b.iter().map(|x| x.id));
    }
    ctx.case("batch", &v);
}

pub fn run_c06(ctx: &mut Ctx) {
    const SIZES: [usize; 8] = [0, 1, 2, 3, 5, 8, 13, 40];
    if ctx.thorough && ctx.first_shard() {
        // exhaustive: all size vectors of length ≤ 5 with sizes ≤ 3 × all flags × limits ≤ 6 × prefetch {0,2}
        let mut vecs: Vec<Vec<usize>> = vec![vec![]];
        let mut frontier: Vec<Vec<usize>> = vec![vec![]];
        for _ in 0..5 {
            let mut next = vec![];
            for v in &frontier {
                for s in 0..=3 {
                    let mut t = v.clone();
                    t.push(s);
                    next.push(t);
                }
            }
            vecs.extend(next.iter().cloned());
            frontier = next;
        }
        for sizes in &vecs {
            let items: Vec<It> = sizes.iter().enumerate().map(|(i, &s)| It { id: i as u64, size: s }).collect();
            for flags in 0..8u64 {
                for limit in [0usize, 1, 2, 3, 6] {
                    for pf in [0usize, 2] {
                        emit(ctx, &items, flags & 1 != 0, flags & 2 != 0, flags & 4 != 0, pf, limit, 7);
                    }
                }
            }
        }
    }
    if ctx.first_shard() {
        // limits at the top of the usize range ("no limit"): the arithmetic on limit and prefetch factor must not overflow
        let m = u64::MAX as usize;
        for limit in [m, m - 1, m / 2, m / 2 + 1, m / 3 + 1] {
            for flags in 0..8u64 {
                for pf in [0usize, 1, 2, 3, m] {
                    let items: Vec<It> = [3usize, 0, 8, 1, 5, 2].iter().enumerate().map(|(i, &s)| It { id: i as u64, size: s }).collect();
                    emit(ctx, &items, flags & 1 != 0, flags & 2 != 0, flags & 4 != 0, pf, limit, 7);
                }
            }
        }
    }
    if ctx.first_shard() {
        // item sizes at the top of the usize range (the quantifier: ALL finite sequences of item sizes, "items larger
        // than the limit"): count * largest size must not overflow
        let m = u64::MAX as usize;
        for sizes in [vec![m / 2 + 1, m / 2 + 1, 3], vec![3, m, 1, m], vec![m / 3 + 1, m / 3 + 1, m / 3 + 1, 2], vec![1, 2, m / 2, m / 2, m / 2], vec![m]] {
            let items: Vec<It> = sizes.iter().enumerate().map(|(i, &s)| It { id: i as u64, size: s }).collect();
            for flags in 0..8u64 {
                for (pf, limit) in [(1usize, 8usize), (2, 1), (0, m / 2), (3, m - 1)] {
                    emit(ctx, &items, flags & 1 != 0, flags & 2 != 0, flags & 4 != 0, pf, limit, 7);
                }
            }
        }
    }
    let n = ctx.budget(4000, 300000);
    for i in 0..n {
        let len = ctx.rng.random_range(0..=if i % 500 == 3 { 600 } else if i % 8 == 0 { 40 } else { 12 });
        let mode = ctx.rng.random_range(0..10);
        let items: Vec<It> = (0..len)
            .map(|k| It {
                id: k as u64,
                size: match mode {
                    0 => 0,
                    1 => 3,
                    2 => 40,
                    _ => SIZES[ctx.rng.random_range(0..SIZES.len())],
                },
            })
            .collect();
        let sort = ctx.rng.random_bool(0.5);
        let shuffle = ctx.rng.random_bool(0.5);
        let padded = ctx.rng.random_bool(0.5);
        let prefetch = ctx.rng.random_range(0..=4);
        let limit = ctx.rng.random_range(0..=16);
        let seed = crate::gen::seed(&mut ctx.rng);
        emit(ctx, &items, sort, shuffle, padded, prefetch, limit, seed);
    }
}
