pub mod text;
