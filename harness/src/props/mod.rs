pub mod text;
pub mod edit;
pub mod matchw;
pub mod windows;
pub mod tok;
pub mod batch;
pub mod multigen;
pub mod pipe;
