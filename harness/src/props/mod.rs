pub mod text;
pub mod edit;
