//! C13 — correction metrics
use crate::ctx::{Ctx, Outcome};
use crate::wire::*;
use rand::Rng;
use text_utils::metrics::{
    accuracy, binary_f1, mean_edit_distance, mean_normalized_edit_distance, spelling_correction_f1, whitespace_correction_f1,
    WhitespaceCorrectionMode,
};
use text_utils::text::clean;
use text_utils::unicode::{normalize, Normalization};

/// the text the metric functions work on: cleaned, NFKC-normalised and cleaned again (NFKC can
/// introduce spaces: U+00A8 -> space + combining diaeresis)
pub fn prep(s: &str) -> String {
    clean(&normalize(&clean(s, true), Normalization::NFKC, true), true)
}

fn fl3(r: (f64, f64, f64)) -> String {
    let f = |x: f64| if x.is_nan() { "f:nan".to_string() } else { format!("f:{x:e}") };
    format!("ok {} {} {}", f(r.0), f(r.1), f(r.2))
}

/// the defining formula of F-beta from precision and recall
fn fbeta(p: f64, r: f64, beta: f64) -> f64 {
    if p + r > 0.0 {
        (1.0 + beta * beta) * p * r / (beta * beta * p + r)
    } else {
        0.0
    }
}

fn range_ok(o: &mut Outcome, r: (f64, f64, f64)) {
    for x in [r.0, r.1, r.2] {
        o.check(x.is_finite(), "metric value is not finite");
        o.check((0.0..=1.0).contains(&x) || !x.is_finite(), "metric value outside [0,1]");
    }
}

/// texts of a request (prepared: clean + NFKC + clean), checked against the real segmentation
/// mean edit distance works on NFKC(clean(s)) (no second clean)
pub fn prep_med(s: &str) -> String {
    normalize(&clean(s, true), Normalization::NFKC, true)
}

fn texts_from(r: &mut Rd, g: bool, k: usize) -> R<Vec<Vec<String>>> {
    let n = r.usize()?;
    let mut out = vec![];
    for _ in 0..n {
        let mut tup = vec![];
        for _ in 0..k {
            // raw string as given to the metric function, then the prepared text the model works on
            let raw = r.string()?;
            let t = r.text()?;
            let prepared = if k == 2 { prep_med(&raw) } else { prep(&raw) };
            if clusters(&prepared, g) != t {
                return Err("prepared text in request is not clean(NFKC(clean(raw))) with the real segmentation".into());
            }
            tup.push(raw);
        }
        out.push(tup);
    }
    Ok(out)
}

pub fn exec(op: &str, a: &[u64]) -> Result<Outcome, String> {
    let mut r = Rd::new(a);
    match op {
        "binf1" => {
            let p = r.list(|r| r.bool())?;
            let t = r.list(|r| r.bool())?;
            let bn = r.nat()?;
            let bd = r.nat()?;
            r.end()?;
            match binary_f1(&p, &t, bn as f64 / bd as f64) {
                Ok(res) => {
                    let mut o = Outcome::new(fl3(res));
                    range_ok(&mut o, res);
                    let tp = p.iter().zip(&t).filter(|(a, b)| **a && **b).count() as f64;
                    let fp = p.iter().zip(&t).filter(|(a, b)| **a && !**b).count() as f64;
                    let fnn = p.iter().zip(&t).filter(|(a, b)| !**a && **b).count() as f64;
                    o.check((res.1 - tp / (tp + fp).max(1.0)).abs() < 1e-12 && (res.2 - tp / (tp + fnn).max(1.0)).abs() < 1e-12, "binary F1 != defining formula");
                    o.check((res.0 - fbeta(res.1, res.2, bn as f64 / bd as f64)).abs() < 1e-12, "binary F-beta != (1 + beta^2) P R / (beta^2 P + R)");
                    Ok(o)
                }
                Err(_) => {
                    let mut o = Outcome::new(err("len"));
                    o.check(p.len() != t.len(), "binary_f1 failed on equal lengths");
                    Ok(o)
                }
            }
        }
        "acc" => {
            let p = r.nats()?;
            let t = r.nats()?;
            r.end()?;
            match accuracy(&p, &t) {
                Ok(x) => {
                    let mut o = Outcome::new(format!("ok f:{x:e}"));
                    let want = p.iter().zip(&t).filter(|(a, b)| a == b).count() as f64 / p.len().max(1) as f64;
                    o.check((x - want).abs() < 1e-12, "accuracy != defining formula");
                    Ok(o)
                }
                Err(_) => {
                    let mut o = Outcome::new(err("len"));
                    o.check(p.len() != t.len(), "accuracy failed on equal lengths");
                    Ok(o)
                }
            }
        }
        "med" => {
            let g = r.bool()?;
            let norm = r.bool()?;
            let ps = texts_from(&mut r, g, 2)?;
            r.end()?;
            let a: Vec<&str> = ps.iter().map(|p| p[0].as_str()).collect();
            let b: Vec<&str> = ps.iter().map(|p| p[1].as_str()).collect();
            let x = if norm { mean_normalized_edit_distance(&a, &b, g) } else { mean_edit_distance(&a, &b, g) }.map_err(|e| e.to_string())?;
            let mut o = Outcome::new(if x.is_nan() { "ok f:nan".into() } else { format!("ok f:{x:e}") });
            o.check(x.is_finite() && x >= 0.0, "mean edit distance not finite");
            // the defining formula: the mean of the pairwise distances of the prepared texts (each pair evaluated alone,
            // summed in order; the parallel sum of the code may round differently in the last bits)
            let want = a.iter().zip(&b).map(|(s, t)| text_utils::edit::distance(&prep_med(s), &prep_med(t), g, false, false, norm)).sum::<f64>() / a.len().max(1) as f64;
            o.check(x.is_nan() || want.is_nan() || (x - want).abs() <= 1e-9 * want.abs().max(1.0), "mean edit distance != mean of the pairwise distances");
            if norm {
                o.check(x <= 1.0 || !x.is_finite(), "mean normalised edit distance outside [0,1]");
            }
            Ok(o)
        }
        "wsf1" | "spellf1" => {
            let g = r.bool()?;
            let mode = if op == "wsf1" { r.nat()? } else { 0 };
            let sa = r.bool()?;
            let bn = r.nat()?;
            let bd = r.nat()?;
            let ts = texts_from(&mut r, g, 3)?;
            if op == "spellf1" {
                // the observed sub-results (three word matchings and the edit script per triple) are for the model
                let _subs = r.list(|r| {
                    let pairs = |r: &mut Rd| r.list(|r| Ok((r.nat()?, r.nat()?)));
                    Ok((pairs(r)?, pairs(r)?, pairs(r)?, r.list(|r| Ok((r.nat()?, r.nat()?, r.nat()?)))?))
                })?;
            }
            r.end()?;
            let i: Vec<&str> = ts.iter().map(|p| p[0].as_str()).collect();
            let p: Vec<&str> = ts.iter().map(|p| p[1].as_str()).collect();
            let t: Vec<&str> = ts.iter().map(|p| p[2].as_str()).collect();
            let beta = bn as f64 / bd as f64;
            let res = if op == "wsf1" {
                let m = match mode {
                    0 => WhitespaceCorrectionMode::Insertions,
                    1 => WhitespaceCorrectionMode::Deletions,
                    _ => WhitespaceCorrectionMode::InsertionsAndDeletions,
                };
                whitespace_correction_f1(&i, &p, &t, beta, sa, m, g)
            } else {
                spelling_correction_f1(&i, &p, &t, beta, sa, g)
            };
            match res {
                Ok((v, _)) => {
                    let mut o = Outcome::new(fl3(v));
                    range_ok(&mut o, v);
                    let eqv = |x: &Vec<&str>, y: &Vec<&str>| x.iter().map(|s| prep(s)).collect::<Vec<_>>() == y.iter().map(|s| prep(s)).collect::<Vec<_>>();
                    if eqv(&p, &t) {
                        o.check(v.0 == v.1 && v.1 == v.2, "prediction == target but precision, recall and F differ (false positives / negatives)");
                        if !sa {
                            o.check(v.1 == 0.0 || v.1 == 1.0, "prediction == target but precision/recall is not 0 (no errors) or 1");
                        }
                    }
                    if eqv(&p, &i) && !sa {
                        o.check(v == (0.0, 0.0, 0.0), "unchanged prediction has true positives");
                    }
                    if !sa {
                        // micro averaging: the F-beta of the summed counts, i.e. of the reported precision and recall
                        o.check((v.0 - fbeta(v.1, v.2, beta)).abs() < 1e-12, "micro F-beta != (1 + beta^2) P R / (beta^2 P + R) of the reported precision and recall");
                    } else if ts.len() == 1 {
                        // a single sequence: the sequence average is that sequence's value
                        o.check((v.0 - fbeta(v.1, v.2, beta)).abs() < 1e-12, "sequence-averaged F-beta of one sequence != the F-beta of its precision and recall");
                    } else if op == "spellf1" && ts.len() >= 2 {
                        // sequence averaging is the mean of the per-sequence values.  The value of a sequence in which
                        // something was to do or was done (input, prediction and target are not all the same text) is the
                        // F-beta of its own counts, i.e. what micro averaging reports for that sequence alone; what a
                        // sequence counts as in which no input word had to be corrected and none was changed is a
                        // convention the property leaves open (the code: 1), so both readings are accepted for those,
                        // uniformly.
                        let mut sums = [(0.0f64, 0.0f64, 0.0f64); 2];
                        let mut ok_all = true;
                        for k in 0..ts.len() {
                            // nothing to do and nothing done: every target word is already in the input (in order) and every
                            // input word is kept by the prediction
                            let (pi, pp, pt) = (prep(i[k]), prep(p[k]), prep(t[k]));
                            let mw = |a: &str, b: &str| std::panic::catch_unwind(|| { let (m, na, nb) = text_utils::text::match_words(a, b, false); (m.len(), na, nb) }).unwrap_or((0, 1, 1));
                            let (mp, ni, _) = mw(&pi, &pp);
                            let (mt, _, nt) = mw(&pi, &pt);
                            let trivial = mp == ni && mt == nt;
                            match spelling_correction_f1(&i[k..k + 1], &p[k..k + 1], &t[k..k + 1], beta, false, g) {
                                Ok((one, _)) => {
                                    for (c, s) in sums.iter_mut().enumerate() {
                                        let x = if trivial && c == 1 { (1.0, 1.0, 1.0) } else { one };
                                        s.0 += x.0;
                                        s.1 += x.1;
                                        s.2 += x.2;
                                    }
                                }
                                Err(_) => ok_all = false,
                            }
                        }
                        if ok_all {
                            let n = ts.len() as f64;
                            let close = |s: (f64, f64, f64)| (v.0 - s.0 / n).abs() < 1e-9 && (v.1 - s.1 / n).abs() < 1e-9 && (v.2 - s.2 / n).abs() < 1e-9;
                            o.check(close(sums[0]) || close(sums[1]), "sequence average != mean of the per-sequence values (each sequence evaluated alone)");
                        }
                    }
                    Ok(o)
                }
                Err(_) => Ok(Outcome::new(err("ops"))),
            }
        }
        _ => Err(format!("unknown op {op}")),
    }
}

/// the sub-results of `_spelling_correction_tp_fp_fn` the property leaves open, obtained from the same public
/// functions on the prepared texts: match_words (input/target, input/prediction, prediction/target) and the edit
/// script operations(input, prediction, use_graphemes, false, true)
fn enc_spell_subs(v: &mut Vec<u64>, ts: &[(String, String, String)], g: bool) {
    use text_utils::edit::{operations, EditOperation};
    use text_utils::text::match_words;
    v.push(ts.len() as u64);
    for (i, p, t) in ts {
        let (i, p, t) = (prep(i), prep(p), prep(t));
        let res = std::panic::catch_unwind(|| {
            (match_words(&i, &t, false).0, match_words(&i, &p, false).0, match_words(&p, &t, false).0, operations(&i, &p, g, false, true))
        });
        let (mit, mip, mpt, ops) = res.unwrap_or_default();
        for m in [&mit, &mip, &mpt] {
            v.push(m.len() as u64);
            for (a, b) in m {
                v.push(*a as u64);
                v.push(*b as u64);
            }
        }
        v.push(ops.len() as u64);
        for (k, a, b) in &ops {
            v.push(match k {
                EditOperation::Insert => 0,
                EditOperation::Delete => 1,
                EditOperation::Replace => 2,
                EditOperation::Swap => 3,
            });
            v.push(*a as u64);
            v.push(*b as u64);
        }
    }
}

// incl. grapheme clusters of several code points that NFKC does NOT compose (x + circumflex, a flag): in code-point
// mode positions after them differ from grapheme positions
const WORDS: &[&str] = &["a", "ab", "b", "ba", "abc", "c", "A", "\u{e4}b", "a\u{301}", "x\u{302}", "\u{1F1E9}\u{1F1EA}y"];

fn words(ctx: &mut Ctx, n: usize) -> Vec<String> {
    (0..n).map(|_| WORDS[ctx.rng.random_range(0..WORDS.len())].to_string()).collect()
}

/// edit a word sequence: misspell, merge, split, delete, add words
fn perturb(ctx: &mut Ctx, w: &[String], strength: usize) -> Vec<String> {
    let mut v = w.to_vec();
    for _ in 0..strength {
        match ctx.rng.random_range(0..6) {
            0 if !v.is_empty() => {
                let i = ctx.rng.random_range(0..v.len());
                v[i] = WORDS[ctx.rng.random_range(0..WORDS.len())].to_string();
            }
            1 if v.len() >= 2 => {
                let i = ctx.rng.random_range(0..v.len() - 1);
                let m = format!("{}{}", v[i], v[i + 1]);
                v[i] = m;
                v.remove(i + 1);
            }
            2 if !v.is_empty() => {
                let i = ctx.rng.random_range(0..v.len());
                let cs: Vec<char> = v[i].chars().collect();
                if cs.len() >= 2 {
                    let k = ctx.rng.random_range(1..cs.len());
                    let a: String = cs[..k].iter().collect();
                    let b: String = cs[k..].iter().collect();
                    if !b.starts_with('\u{301}') {
                        v[i] = a;
                        v.insert(i + 1, b);
                    }
                }
            }
            3 if !v.is_empty() => {
                let i = ctx.rng.random_range(0..v.len());
                v.remove(i);
            }
            4 => {
                let i = ctx.rng.random_range(0..=v.len());
                v.insert(i, WORDS[ctx.rng.random_range(0..WORDS.len())].to_string());
            }
            _ => {}
        }
    }
    v
}

fn enc_triples(v: &mut Vec<u64>, ts: &[(String, String, String)], g: bool) {
    v.push(ts.len() as u64);
    for (a, b, c) in ts {
        for x in [a, b, c] {
            enc_str(v, x);
            v.extend(enc_text(&prep(x), g));
        }
    }
}

const BETAS: [(u64, u64); 4] = [(0, 1), (1, 2), (1, 1), (2, 1)];
/// characters whose NFKC form contains a space (D12 stream)
const NFKC_SPACE: [char; 5] = ['\u{a8}', '\u{af}', '\u{b4}', '\u{b8}', '\u{2017}'];

/// long lists (the functions process the sequences in parallel; block-wise processing must not lose or misalign
/// the last, shorter block): just above 1024, not a multiple of a power of two
fn long_lists(ctx: &mut Ctx) {
    let sizes: &[usize] = if ctx.thorough { &[1025, 1030, 2049, 4100] } else { &[1025, 2050] };
    let ws = ["a", "b", "ab", "ba", "c", ""];
    for (j, &n) in sizes.iter().enumerate() {
        let g = j % 2 == 0;
        // mean (normalised) edit distance over n pairs of very short, non-periodic texts
        let pairs: Vec<(String, String)> = (0..n).map(|_| (ws[ctx.rng.random_range(0..6)].to_string(), ws[ctx.rng.random_range(0..6)].to_string())).collect();
        for norm in [0u64, 1] {
            let mut v = vec![g as u64, norm, n as u64];
            for (a, b) in &pairs {
                for x in [a, b] {
                    enc_str(&mut v, x);
                    v.extend(enc_text(&prep_med(x), g));
                }
            }
            ctx.case("med", &v);
        }
        // accuracy / binary F1 over n labels
        let mut v = vec![];
        enc_nats(&mut v, (0..n).map(|_| ctx.rng.random_range(0..2)));
        enc_nats(&mut v, (0..n).map(|_| ctx.rng.random_range(0..2)));
        ctx.case("acc", &v);
        v.extend([1, 1]);
        ctx.case("binf1", &v);
        // spelling / whitespace correction over n one- or two-word sequences
        let ts: Vec<(String, String, String)> = (0..n)
            .map(|_| {
                let t = format!("{} {}", ws[ctx.rng.random_range(0..5)], ws[ctx.rng.random_range(0..5)]);
                let i = if ctx.rng.random_bool(0.5) { t.clone() } else { format!("{} {}", ws[ctx.rng.random_range(0..5)], ws[ctx.rng.random_range(0..5)]) };
                let p = if ctx.rng.random_bool(0.5) { t.clone() } else { i.clone() };
                (i, p, t)
            })
            .collect();
        for sa in [0u64, 1] {
            let mut v = vec![g as u64, sa, 1, 1];
            enc_triples(&mut v, &ts, g);
            enc_spell_subs(&mut v, &ts, g);
            ctx.case("spellf1", &v);
        }
    }
}

pub fn run_c13(ctx: &mut Ctx) {
    if ctx.first_shard() {
        long_lists(ctx);
    }
    let n = ctx.budget(500, 30000);
    for i in 0..n {
        let (bn, bd) = BETAS[ctx.rng.random_range(0..4)];
        // binary f1 / accuracy
        let len = ctx.rng.random_range(0..=8);
        let len2 = if ctx.rng.random_range(0..10) == 0 { ctx.rng.random_range(0..=8) } else { len };
        let mut v = vec![];
        enc_nats(&mut v, (0..len).map(|_| ctx.rng.random_range(0..2)));
        enc_nats(&mut v, (0..len2).map(|_| ctx.rng.random_range(0..2)));
        let mut v2 = v.clone();
        v.extend([bn, bd]);
        ctx.case("binf1", &v);
        for x in v2.iter_mut().skip(1) {
            let _ = x;
        }
        ctx.case("acc", &v2);
        // spelling correction
        let g = ctx.rng.random_bool(0.5);
        let sa = ctx.rng.random_bool(0.5) && i % 6 != 3;
        let k = ctx.rng.random_range(0..=3);
        let mut ts = vec![];
        for _ in 0..k {
            let nw = ctx.rng.random_range(0..=5);
            let target = words(ctx, nw);
            let s1 = ctx.rng.random_range(0..=2);
            let input = perturb(ctx, &target, s1);
            let pred = match ctx.rng.random_range(0..6) {
                0 => target.clone(),
                1 => input.clone(),
                2 => vec![],
                _ => {
                    let s2 = ctx.rng.random_range(0..=2);
                    let from_target = ctx.rng.random_bool(0.5);
                    perturb(ctx, if from_target { &target } else { &input }, s2)
                }
            };
            // an unchanged prediction of an input whose words are those of the target in another order (the longest
            // common subsequence of the words is not unique): still no true positives
            let (input, pred) = if i % 6 == 3 && target.len() >= 2 {
                let mut inp = target.clone();
                let a = ctx.rng.random_range(0..inp.len() - 1);
                if ctx.rng.random_bool(0.5) { inp.swap(a, a + 1) } else { inp.rotate_left(a + 1) }
                (inp.clone(), inp)
            } else {
                (input, pred)
            };
            let mut tr = (input.join(" "), pred.join(" "), target.join(" "));
            if i % 25 == 0 {
                // D12 stream: characters whose NFKC form contains a space
                let c = NFKC_SPACE[ctx.rng.random_range(0..NFKC_SPACE.len())];
                tr.0.push(c);
                tr.1 = format!("{}{} b", tr.1, c);
                tr.2.push(c);
            }
            ts.push((tr.0, tr.1, tr.2));
        }
        let mut v = vec![g as u64, sa as u64, bn, bd];
        enc_triples(&mut v, &ts, g);
        enc_spell_subs(&mut v, &ts, g);
        ctx.case("spellf1", &v);
        // mean edit distance
        let mut v = vec![g as u64, (i % 2) as u64, ts.len() as u64];
        for (a, b, _) in &ts {
            for x in [a, b] {
                enc_str(&mut v, x);
                v.extend(enc_text(&prep_med(x), g));
            }
        }
        ctx.case("med", &v);
        // whitespace correction: the three texts share the non-whitespace skeleton
        let mode = ctx.rng.random_range(0..3u64);
        let mut ts = vec![];
        for _ in 0..k {
            let n = ctx.rng.random_range(0..=8);
            // atoms incl. grapheme clusters of several code points that NFKC does not compose: in code-point mode the
            // operation indices after them differ from the grapheme indices
            let skel: Vec<&str> = (0..n).map(|_| ["a", "b", "c", "\u{e4}", "a", "b", "x\u{302}", "\u{1F1E9}\u{1F1EA}"][ctx.rng.random_range(0..8)]).collect();
            let mut space = |ctx: &mut Ctx| {
                let mut s = String::new();
                for (j, c) in skel.iter().enumerate() {
                    if j > 0 && ctx.rng.random_bool(0.35) {
                        s.push(' ');
                    }
                    s.push_str(c);
                }
                s
            };
            let target = space(ctx);
            let input = space(ctx);
            let pred = match ctx.rng.random_range(0..5) {
                0 => target.clone(),
                1 => input.clone(),
                2 if i % 10 == 0 => format!("{input}x"),
                _ => space(ctx),
            };
            ts.push((input, pred, target));
        }
        let mut v = vec![g as u64, mode, sa as u64, bn, bd];
        enc_triples(&mut v, &ts, g);
        ctx.case("wsf1", &v);
    }
}
