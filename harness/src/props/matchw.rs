//! C18 — match_words (LCS) and edited_words
use crate::ctx::{Ctx, Outcome};
use crate::wire::*;
use rand::Rng;
use text_utils::edit::edited_words;
use text_utils::text::match_words;

fn lcs_len(a: &[String], b: &[String]) -> usize {
    // independent reference: classic LCS length
    let mut d = vec![vec![0usize; b.len() + 1]; a.len() + 1];
    for i in 1..=a.len() {
        for j in 1..=b.len() {
            d[i][j] = if a[i - 1] == b[j - 1] { d[i - 1][j - 1] + 1 } else { d[i - 1][j].max(d[i][j - 1]) };
        }
    }
    d[a.len()][b.len()]
}

fn keys(s: &str, ic: bool) -> Vec<String> {
    s.split_ascii_whitespace().map(|w| if ic { w.to_lowercase() } else { w.to_string() }).collect()
}

pub fn exec(op: &str, a: &[u64]) -> Result<Outcome, String> {
    let mut r = Rd::new(a);
    let sa = r.string()?;
    let sb = r.string()?;
    let lower = r.opt(|r| Ok((r.text()?, r.text()?)))?;
    // the observation recorded by the generating run is for the model (any longest increasing matching is an
    // admissible answer); this run's answer is judged by the oracle below
    let _m = r.list(|r| Ok((r.nat()?, r.nat()?)))?;
    if op == "matchw" {
        let _ = (r.nat()?, r.nat()?);
    } else {
        let _ = (r.nats()?, r.nats()?);
    }
    r.end()?;
    let ic = lower.is_some();
    let ka = keys(&sa, ic);
    let kb = keys(&sb, ic);
    if let Some((la, lb)) = &lower {
        let enc = |k: &Vec<String>| k.iter().map(|w| w.chars().map(|c| c as u64).collect::<Vec<_>>()).collect::<Vec<_>>();
        if *la != enc(&ka) || *lb != enc(&kb) {
            return Err("lowercase forms in request differ from str::to_lowercase".into());
        }
    }
    match op {
        "matchw" => {
            let (m, al, bl) = match_words(&sa, &sb, ic);
            let mut o = Outcome::new("accept".to_string());
            o.check(al == ka.len() && bl == kb.len(), "word counts != numbers of whitespace-separated words");
            o.check(m.windows(2).all(|w| w[0].0 < w[1].0 && w[0].1 < w[1].1), "pairs not strictly increasing in both coordinates");
            o.check(m.iter().all(|&(i, j)| i < ka.len() && j < kb.len() && ka[i] == kb[j]), "matched words differ");
            o.check(m.len() == lcs_len(&ka, &kb), "number of matches != LCS length");
            Ok(o)
        }
        "editedw" => {
            if ic {
                return Err("edited_words has no ignore_case".into());
            }
            let (ea, eb) = edited_words(&sa, &sb);
            let mut ea: Vec<u64> = ea.into_iter().map(|x| x as u64).collect();
            let mut eb: Vec<u64> = eb.into_iter().map(|x| x as u64).collect();
            ea.sort();
            eb.sort();
            let (m, al, bl) = match_words(&sa, &sb, false);
            let mut o = Outcome::new("accept".to_string());
            let wa: Vec<u64> = (0..al as u64).filter(|i| !m.iter().any(|p| p.0 as u64 == *i)).collect();
            let wb: Vec<u64> = (0..bl as u64).filter(|j| !m.iter().any(|p| p.1 as u64 == *j)).collect();
            o.check(ea == wa && eb == wb, "edited_words != complement of the matching");
            Ok(o)
        }
        _ => Err(format!("unknown op {op}")),
    }
}

fn req(a: &str, b: &str, ic: bool) -> Vec<u64> {
    let mut v = vec![];
    enc_str(&mut v, a);
    enc_str(&mut v, b);
    if ic {
        v.push(1);
        for s in [a, b] {
            let k = keys(s, true);
            v.push(k.len() as u64);
            for w in k {
                enc_str(&mut v, &w);
            }
        }
    } else {
        v.push(0);
    }
    v
}

/// request + the observation of this (generating) run
fn req_matchw(a: &str, b: &str, ic: bool) -> Vec<u64> {
    let mut v = req(a, b, ic);
    let (m, al, bl) = std::panic::catch_unwind(|| match_words(a, b, ic)).unwrap_or_default();
    v.push(m.len() as u64);
    for (i, j) in &m {
        v.push(*i as u64);
        v.push(*j as u64);
    }
    v.push(al as u64);
    v.push(bl as u64);
    v
}

fn req_editedw(a: &str, b: &str) -> Vec<u64> {
    let mut v = req(a, b, false);
    let (m, _, _) = std::panic::catch_unwind(|| match_words(a, b, false)).unwrap_or_default();
    v.push(m.len() as u64);
    for (i, j) in &m {
        v.push(*i as u64);
        v.push(*j as u64);
    }
    let (ea, eb) = std::panic::catch_unwind(|| edited_words(a, b)).unwrap_or_default();
    let mut ea: Vec<u64> = ea.into_iter().map(|x| x as u64).collect();
    let mut eb: Vec<u64> = eb.into_iter().map(|x| x as u64).collect();
    ea.sort();
    eb.sort();
    enc_nats(&mut v, ea);
    enc_nats(&mut v, eb);
    v
}

const WORDS: &[&str] = &["a", "b", "A", "ab", "Ab", "c", "\u{3a3}\u{391}\u{3a3}", "\u{130}x", "stra\u{df}e", "STRASSE",
    // pairs that are equal under str::to_lowercase but not under ASCII case folding
    "\u{3c3}\u{3b1}\u{3c2}", "\u{dc}ber", "\u{fc}ber", "\u{c9}COLE", "\u{e9}cole", "i\u{307}x", "\u{41f}\u{420}\u{418}", "\u{43f}\u{440}\u{438}",
    // "words" made of white space that is not ASCII white space (the function splits at ASCII white space only): for
    // str::trim / char::is_whitespace such a text is blank, for the word matching it is a word like any other
    "\u{3000}", "\u{a0}", "\u{2003}\u{2003}", "\u{85}", "\u{b}", "\u{2028}", "x\u{a0}y",
    // titlecase letters (neither upper case nor lower case for char::is_uppercase / is_lowercase, but str::to_lowercase
    // changes them) next to their lower-case forms, in texts without any upper-case letter
    "\u{1c5}ungla", "\u{1c6}ungla", "\u{1c8}", "\u{1c9}", "\u{1f88}x", "\u{1f80}x", "je", "velika"];
const N_TITLE: usize = 8;
const N_WSWORDS: usize = 7;
const SEPS: &[&str] = &[" ", "  ", "\t", "\n", " \r\n", "\u{c}"];

fn text(ctx: &mut Ctx, max_words: usize, vocab: (usize, usize)) -> String {
    let n = ctx.rng.random_range(0..=max_words);
    let mut s = String::new();
    if ctx.rng.random_bool(0.2) {
        s.push_str(SEPS[ctx.rng.random_range(0..SEPS.len())]);
    }
    for i in 0..n {
        if i > 0 {
            s.push_str(SEPS[ctx.rng.random_range(0..SEPS.len())]);
        }
        s.push_str(WORDS[ctx.rng.random_range(vocab.0..vocab.1)]);
    }
    if ctx.rng.random_bool(0.2) {
        s.push_str(SEPS[ctx.rng.random_range(0..SEPS.len())]);
    }
    s
}

pub fn run_c18(ctx: &mut Ctx) {
    if ctx.first_shard() {
        for (a, b) in [("", ""), ("a", ""), ("", "a"), ("a b c", "b x c"), ("a a a", "a a"), ("A b", "a B"), ("a\u{b}b", "a b"), ("a\u{a0}b", "a b"), ("\u{1c5}ungla je velika", "\u{1c6}ungla je velika"), ("\u{1c8} \u{1f88}x", "\u{1c9} \u{1f80}x"), ("\u{3000}", "x \u{3000} y"), ("x \u{a0} y", "\u{a0}"), ("\u{2003}", "\u{2003}"), (" \u{85} ", "a \u{85}"), ("\u{b}", "a \u{b} \u{b}"), ("\u{dc}ber den Wolken", "\u{fc}ber den wolken"), ("\u{3a3}\u{391}\u{3a3} x", "\u{3c3}\u{3b1}\u{3c2} X")] {
            for ic in [false, true] {
                ctx.case("matchw", &req_matchw(a, b, ic));
            }
            ctx.case("editedw", &req_editedw(a, b));
        }
    }
    if ctx.thorough && ctx.first_shard() {
        // exhaustive: all word sequences of length ≤ 4 over 4 words (incl. a case variant), both flags
        let voc = ["a", "b", "A", "c"];
        let mut seqs: Vec<Vec<&str>> = vec![vec![]];
        let mut frontier: Vec<Vec<&str>> = vec![vec![]];
        for _ in 0..4 {
            let mut next = vec![];
            for s in &frontier {
                for w in voc {
                    let mut t = s.clone();
                    t.push(w);
                    next.push(t);
                }
            }
            seqs.extend(next.iter().cloned());
            frontier = next;
        }
        for a in &seqs {
            for b in &seqs {
                let (sa, sb) = (a.join(" "), b.join(" "));
                for ic in [false, true] {
                    ctx.case("matchw", &req_matchw(&sa, &sb, ic));
                }
                ctx.case("editedw", &req_editedw(&sa, &sb));
            }
        }
    }
    let n = ctx.budget(4000, 200000);
    for i in 0..n {
        let (t0, w0) = (WORDS.len() - N_TITLE, WORDS.len() - N_TITLE - N_WSWORDS);
        let vocab = [(0, 3), (0, 6), (0, WORDS.len()), (6, WORDS.len()), (w0, t0), (0, 3), (t0, WORDS.len()), (w0 - 2, t0), (t0, WORDS.len())][(i % 9) as usize];
        let long = i % 400 == 9;
        let max_words: u64 = if long { 150 } else if i % 10 == 0 { 12 } else { 6 };
        let a = text(ctx, max_words as usize, vocab);
        let b = text(ctx, max_words as usize, vocab);
        let ic = ctx.rng.random_bool(0.5);
        ctx.case("matchw", &req_matchw(&a, &b, ic));
        if i % 2 == 0 {
            ctx.case("editedw", &req_editedw(&a, &b));
        }
    }
}
