//! C05 / C09 — the threaded Pipe under a controlled scheduler (trace validation), Buffered, panics
use crate::ctx::{Ctx, Outcome};
use crate::sched::{Park, Sched};
use crate::wire::*;
use rand::Rng;
use rand::SeedableRng;
use rand_chacha::ChaCha8Rng;
use std::sync::atomic::{AtomicUsize, Ordering};
use std::sync::{Arc, Mutex};
use std::time::Duration;
use text_utils::data::loading::{BufferedIterator, Pipe, PipelineIterator};

fn f(x: u64) -> u64 {
    x * 3 + 1
}

#[derive(Clone, Debug, PartialEq)]
pub struct Ev {
    pub code: u64,
    pub w: u64,
    pub idx: u64,
    pub flag: u64,
}

pub struct Run {
    pub w: usize,
    pub n: usize,
    sched: Arc<Sched>,
    pipe: Option<Pipe<u64>>,
    pulled: Arc<AtomicUsize>,
    calls: Arc<Mutex<Vec<usize>>>,
    pub events: Vec<Ev>,
    pub recvd: Vec<u64>,
    pub chan_len: usize,
    pub turn: usize,
    pub dropped: bool,
    pub closed: bool,
    pub pulled_at_drop: usize,
    pub lookahead_ok: bool,
}

#[derive(Clone, Debug, PartialEq)]
pub enum Act {
    Worker(usize),
    Recv,
    Close,
    Drop,
}

/// a worker thread that never reaches its next schedule point: the implementation is blocked (reported as a hang)
fn blocked<T>(why: &str) -> T {
    eprintln!("blocked: {why}");
    crate::ctx::blocked()
}

impl Run {
    pub fn new(w: usize, n: usize) -> Result<Run, String> {
        let sched = Sched::new();
        sched.install();
        let pulled = Arc::new(AtomicUsize::new(0));
        let calls = Arc::new(Mutex::new(vec![0usize; n]));
        let p2 = pulled.clone();
        let c2 = calls.clone();
        let src = (0..n as u64).map(move |i| {
            p2.fetch_add(1, Ordering::SeqCst);
            i
        });
        let pipeline: Arc<dyn Fn(u64) -> u64 + Send + Sync> = Arc::new(move |x| {
            c2.lock().unwrap()[x as usize] += 1;
            f(x)
        });
        let pipe = src.pipe(pipeline, w as u8);
        sched.wait_quiescent(w).unwrap_or_else(|d| blocked(&d.0));
        Ok(Run {
            w,
            n,
            sched,
            pipe: Some(pipe),
            pulled,
            calls,
            events: vec![],
            recvd: vec![],
            chan_len: 0,
            turn: 0,
            dropped: false,
            closed: false,
            pulled_at_drop: 0,
            lookahead_ok: true,
        })
    }

    fn all_exited(&self) -> bool {
        (0..self.w).all(|t| self.sched.has_exited(t))
    }

    /// actions the model considers enabled and that make progress (`spins`: also failing spins)
    pub fn enabled(&self, spins: bool) -> Vec<Act> {
        let mut v = vec![];
        for t in 0..self.w {
            if let Some(p) = self.sched.park_of(t) {
                let ok = match p.label {
                    "send" => self.dropped || self.chan_len < self.w,
                    "computed" | "spin" => spins || p.idx == self.turn,
                    _ => true,
                };
                if ok {
                    v.push(Act::Worker(t));
                }
            }
        }
        if !self.dropped && !self.closed {
            if self.chan_len > 0 {
                v.push(Act::Recv);
            } else if self.all_exited() {
                v.push(Act::Close);
            }
        }
        v
    }

    pub fn can_drop(&self) -> bool {
        !self.dropped && !self.closed
    }

    pub fn step(&mut self, a: &Act) -> Result<(), String> {
        match a {
            Act::Worker(t) => {
                let before = self.sched.park_of(*t).ok_or("worker not parked")?;
                let after: Option<Park> = self.sched.grant(*t, self.w).unwrap_or_else(|d| blocked(&d.0));
                let ev = match before.label {
                    "take" => match &after {
                        Some(p) if p.label == "took" => Ev { code: 0, w: *t as u64, idx: p.idx as u64, flag: 1 },
                        None => Ev { code: 0, w: *t as u64, idx: 0, flag: 0 },
                        Some(p) => return Err(format!("unexpected point {} after take", p.label)),
                    },
                    "took" => Ev { code: 1, w: *t as u64, idx: before.idx as u64, flag: 0 },
                    "computed" | "spin" => match &after {
                        Some(p) if p.label == "send" => Ev { code: 2, w: *t as u64, idx: before.idx as u64, flag: 1 },
                        Some(p) if p.label == "spin" => Ev { code: 2, w: *t as u64, idx: before.idx as u64, flag: 0 },
                        _ => return Err("unexpected point after spin".into()),
                    },
                    "send" => match &after {
                        Some(p) if p.label == "sent" => {
                            if p.flag {
                                self.chan_len += 1;
                            }
                            Ev { code: 3, w: *t as u64, idx: before.idx as u64, flag: p.flag as u64 }
                        }
                        _ => return Err("unexpected point after send".into()),
                    },
                    "sent" => {
                        self.turn = before.idx + 1;
                        Ev { code: 4, w: *t as u64, idx: before.idx as u64, flag: after.is_some() as u64 }
                    }
                    l => return Err(format!("unknown park {l}")),
                };
                self.events.push(ev);
            }
            Act::Recv => {
                let v = self.pipe.as_mut().ok_or("pipe gone")?.next().ok_or("recv returned None although an item was queued")?;
                self.chan_len -= 1;
                self.events.push(Ev { code: 5, w: 0, idx: (v.wrapping_sub(1)) / 3, flag: (v == f((v.wrapping_sub(1)) / 3)) as u64 });
                self.recvd.push(v);
            }
            Act::Close => {
                let r = self.pipe.as_mut().ok_or("pipe gone")?.next();
                if r.is_some() {
                    return Err("close returned an item".into());
                }
                self.closed = true;
                self.events.push(Ev { code: 6, w: 0, idx: 0, flag: 0 });
            }
            Act::Drop => {
                self.pipe = None;
                self.dropped = true;
                self.pulled_at_drop = self.pulled.load(Ordering::SeqCst);
                self.events.push(Ev { code: 7, w: 0, idx: 0, flag: 0 });
            }
        }
        if !self.dropped && self.pulled.load(Ordering::SeqCst) > self.recvd.len() + 2 * self.w {
            self.lookahead_ok = false;
        }
        Ok(())
    }

    /// drive every worker to its exit (cleanup; also the "prompt stop" part of C09)
    pub fn finish(&mut self) -> Result<(), String> {
        if !self.dropped && !self.closed {
            self.step(&Act::Drop)?;
            self.events.pop();
        }
        let mut guard = 0;
        while !self.all_exited() {
            let en: Vec<Act> = self.enabled(false).into_iter().filter(|a| matches!(a, Act::Worker(_))).collect();
            let a = en.first().ok_or("workers neither exited nor enabled after the consumer is gone")?.clone();
            let keep = self.events.len();
            self.step(&a)?;
            self.events.truncate(keep);
            guard += 1;
            if guard > 20 * (self.n + self.w + 2) {
                return Err("workers do not exit".into());
            }
        }
        Sched::uninstall();
        Ok(())
    }

    pub fn calls(&self) -> Vec<usize> {
        self.calls.lock().unwrap().clone()
    }
    pub fn pulled(&self) -> usize {
        self.pulled.load(Ordering::SeqCst)
    }
}

fn enc_events(v: &mut Vec<u64>, evs: &[Ev]) {
    v.push(evs.len() as u64);
    for e in evs {
        v.extend([e.code, e.w, e.idx, e.flag]);
    }
}

pub fn exec(op: &str, a: &[u64]) -> Result<Outcome, String> {
    let mut r = Rd::new(a);
    match op {
        "pipewalk" => {
            // replay of a schedule walk the generator was in when the implementation blocked (seeded random walk
            // under the controlled scheduler); a walk that completes answers "terminates"
            let (w, n, seed, spin, dropk) = (r.usize()?, r.usize()?, r.nat()?, r.nat()?, r.usize()?);
            r.end()?;
            let evs = random_run(w, n, seed, if dropk == 0 { None } else { Some(dropk - 1) }, spin as f64 / 10.0)?;
            let mut o = Outcome::new("terminates".to_string());
            o.check(!evs.is_empty() || n == 0 || w == 0 || dropk > 0, "no event in a walk over a non-empty input");
            Ok(o)
        }
        "pipetrace" => {
            let w = r.usize()?;
            let n = r.usize()?;
            let evs = r.list(|r| Ok(Ev { code: r.nat()?, w: r.nat()?, idx: r.nat()?, flag: r.nat()? }))?;
            r.end()?;
            let mut run = Run::new(w, n)?;
            for e in &evs {
                let act = match e.code {
                    0..=4 => Act::Worker(e.w as usize),
                    5 => Act::Recv,
                    6 => Act::Close,
                    7 => Act::Drop,
                    _ => return Err("bad event".into()),
                };
                if let Err(m) = run.step(&act) {
                    run.finish().ok();
                    return Err(format!("schedule not replayable: {m}"));
                }
                if run.events.last() != Some(e) {
                    let got = run.events.last().cloned();
                    run.finish().ok();
                    return Err(format!("observation differs on replay: {:?} vs {:?}", got, e));
                }
            }
            let closed = run.closed;
            let dropped = run.dropped;
            let recvd = run.recvd.clone();
            let pulled_end_of_trace = run.pulled();
            let fin = run.finish();
            let mut v = vec![];
            enc_nats(&mut v, recvd.iter().map(|x| (x.wrapping_sub(1)) / 3));
            let mut o = Outcome::new(format!("accept {}", v.iter().map(|x| x.to_string()).collect::<Vec<_>>().join(" ")));
            // C05 oracle
            o.check(recvd.iter().enumerate().all(|(i, v)| *v == f(i as u64)), "received sequence is not f(x0), f(x1), ... in order");
            o.check(run.calls().iter().all(|&c| c <= 1), "an item was processed more than once");
            if closed {
                o.check(recvd.len() == n, "iteration ended before the last item");
                o.check(run.calls().iter().all(|&c| c == 1), "not every item was processed exactly once");
            }
            // C09 oracle
            o.check(run.lookahead_ok, "workers pulled more than 2*W items ahead of the consumer");
            o.check(fin.is_ok(), "workers do not exit after the consumer is gone");
            if dropped {
                o.check(run.pulled() <= run.pulled_at_drop + w, "after the drop more than W further items were pulled");
            }
            let _ = pulled_end_of_trace;
            Ok(o)
        }
        "pipestress" => {
            // uncontrolled: real OS schedules, outputs only
            let w = r.usize()?;
            let n = r.usize()?;
            let seed = r.nat()?;
            r.end()?;
            Sched::uninstall();
            let calls = Arc::new(Mutex::new(vec![0usize; n]));
            let c2 = calls.clone();
            let pipeline: Arc<dyn Fn(u64) -> u64 + Send + Sync> = Arc::new(move |x| {
                c2.lock().unwrap()[x as usize] += 1;
                // per-item delay derived from the seed
                let d = (x.wrapping_mul(seed | 1).wrapping_add(seed) >> 3) % 4;
                if d == 0 {
                    std::thread::yield_now();
                } else if d == 1 {
                    std::thread::sleep(Duration::from_micros(20 * ((x + seed) % 5)));
                }
                f(x)
            });
            let out: Vec<u64> = (0..n as u64).pipe(pipeline, w as u8).collect();
            let mut o = Outcome::new(format!("ok {}", out.len()));
            o.check(out.len() == n && out.iter().enumerate().all(|(i, v)| *v == f(i as u64)), "received sequence is not f(x0), f(x1), ... in order");
            o.check(calls.lock().unwrap().iter().all(|&c| c == 1), "not every item was processed exactly once");
            Ok(o)
        }
        "pipeslow" => {
            // one item is much slower than the others (real OS schedule): the consumer has to wait for it
            let w = r.usize()?;
            let n = r.usize()?;
            let j = r.nat()?;
            let ms = r.nat()?;
            r.end()?;
            Sched::uninstall();
            let pipeline: Arc<dyn Fn(u64) -> u64 + Send + Sync> = Arc::new(move |x| {
                if x == j {
                    std::thread::sleep(Duration::from_millis(ms));
                }
                f(x)
            });
            let mut it = (0..n as u64).pipe(pipeline, w as u8);
            let mut out = vec![];
            while let Some(v) = it.next() {
                out.push(v);
            }
            // an iterator that reported the end must not yield again
            let after = it.next();
            let mut o = Outcome::new(format!("ok {}", out.len()));
            o.check(out.len() == n && out.iter().enumerate().all(|(i, v)| *v == f(i as u64)), "iteration ended before the last item / wrong order when one item is slow");
            o.check(after.is_none(), "iterator yields again after reporting the end");
            Ok(o)
        }
        "pipestall" => {
            // wall-clock stalls far longer than any scheduling hiccup (real OS schedule, two pipes side by side):
            // pipe A has one item that takes `slow_ms` to process (the consumer waits in `next()` that long; the other
            // workers wait for their turn); the consumer of pipe B reads `pause_after` items, then does not poll for
            // `pause_ms` while the workers sit on a full channel, then drains.  A pipe has no clock: both must be the
            // sequential map.
            let w = r.usize()?;
            let n = r.usize()?;
            let j = r.nat()?;
            let slow_ms = r.nat()?;
            let pause_after = r.usize()?;
            let pause_ms = r.nat()?;
            r.end()?;
            Sched::uninstall();
            let a = std::thread::spawn(move || {
                let pipeline: Arc<dyn Fn(u64) -> u64 + Send + Sync> = Arc::new(move |x| {
                    if x == j {
                        std::thread::sleep(Duration::from_millis(slow_ms));
                    }
                    f(x)
                });
                (0..n as u64).pipe(pipeline, w as u8).collect::<Vec<u64>>()
            });
            let pipeline: Arc<dyn Fn(u64) -> u64 + Send + Sync> = Arc::new(f);
            let mut it = (0..n as u64).pipe(pipeline, w as u8);
            let mut out_b = vec![];
            while let Some(v) = it.next() {
                out_b.push(v);
                if out_b.len() == pause_after {
                    std::thread::sleep(Duration::from_millis(pause_ms));
                }
            }
            let out_a = a.join().map_err(|_| "pipe A panicked".to_string())?;
            let want: Vec<u64> = (0..n as u64).map(f).collect();
            let mut o = Outcome::new(format!("ok {} {}", out_a.len(), out_b.len()));
            o.check(out_a == want, "an item that takes long to process: items lost, reordered, or the iteration ended before the last item");
            o.check(out_b == want, "a consumer that pauses between two calls of next(): items lost, reordered, or the iteration ended before the last item");
            Ok(o)
        }
        "pipegap" => {
            // an upstream that is NOT fused (its `next()` returns `None` and later items again, as `scan` / `map_while`
            // adapters and growing files do): every `None` ends exactly one worker, so the items before the w-th
            // `None` arrive in order and the iteration ends; nobody may be left waiting for a turn that never comes
            // (consumer blocked, or a worker spinning after the drop).
            let w = r.usize()?;
            let k = r.nat()?;
            let entries = r.nats()?;
            r.end()?;
            Sched::uninstall();
            struct Gappy {
                entries: Vec<u64>,
                pos: usize,
                item: u64,
                pulled: Arc<AtomicUsize>,
            }
            impl Iterator for Gappy {
                type Item = u64;
                fn next(&mut self) -> Option<u64> {
                    self.pulled.fetch_add(1, Ordering::SeqCst);
                    let e = self.entries.get(self.pos).copied().unwrap_or(0);
                    self.pos = (self.pos + 1).min(self.entries.len());
                    if e == 1 {
                        self.item += 1;
                        Some(self.item - 1)
                    } else {
                        None
                    }
                }
            }
            let pulled = Arc::new(AtomicUsize::new(0));
            let src = Gappy { entries: entries.clone(), pos: 0, item: 0, pulled: pulled.clone() };
            let pipeline: Arc<dyn Fn(u64) -> u64 + Send + Sync> = Arc::new(f);
            let probe = pipeline.clone();
            // the consumer runs in its own thread: a consumer that never returns must not take the request with it
            let (txr, rxr) = std::sync::mpsc::channel();
            std::thread::spawn(move || {
                let mut it = src.pipe(pipeline, w as u8);
                let mut got = vec![];
                while (got.len() as u64) < k {
                    match it.next() {
                        Some(v) => got.push(v),
                        None => break,
                    }
                }
                drop(it);
                txr.send(got).ok();
            });
            let got = match rxr.recv_timeout(Duration::from_secs(20)) {
                Ok(g) => g,
                Err(_) => {
                    let mut o = Outcome::new("ok blocked".to_string());
                    o.check(false, "the consumer is still blocked in next() 20 s after the upstream returned None (a worker waits for a turn that never comes)");
                    return Ok(o);
                }
            };
            // after the drop every worker exits: it gives up its clone of the processing function
            let start = std::time::Instant::now();
            while Arc::strong_count(&probe) > 1 && start.elapsed() < Duration::from_secs(10) {
                std::thread::sleep(Duration::from_millis(5));
            }
            let mut o = Outcome::new(format!("ok {}", got.len()));
            o.check(got.iter().enumerate().all(|(i, v)| *v == f(i as u64)), "received sequence is not f(x0), f(x1), ... in order");
            o.check(Arc::strong_count(&probe) == 1, "a worker thread is still alive 10 s after the iterator was dropped");
            let firstgap = entries.iter().take_while(|&&e| e == 1).count() as u64;
            o.check(got.len() as u64 >= firstgap.min(k), "items before the first None of the upstream were not delivered");
            Ok(o)
        }
        "pipedeep" => {
            // a processing function that needs `kib` KiB of stack on some items (far below the 2 MiB a spawned thread
            // gets by default): the piped map must still be the sequential map, for every worker count.  Runs in a
            // child process because a stack overflow aborts the process.
            let w = r.usize()?;
            let n = r.usize()?;
            let kib = r.nat()?;
            r.end()?;
            let exe = std::env::current_exe().map_err(|e| e.to_string())?;
            let status = std::process::Command::new(exe)
                .args(["deep-child", &w.to_string(), &n.to_string(), &kib.to_string()])
                .stdout(std::process::Stdio::null())
                .stderr(std::process::Stdio::null())
                .status()
                .map_err(|e| e.to_string())?;
            let mut o = Outcome::new(format!("ok {n}"));
            o.check(status.code() == Some(0), "piped map of a processing function with an ordinary stack need is not the sequential map (worker threads died or the output differs)");
            Ok(o)
        }
        "pipecpu" => {
            // the pipe is created and iterated by a process that may use ONE CPU only (affinity mask, as in a pinned
            // loader process or a one-CPU container): still the sequential map, for every worker count
            let w = r.usize()?;
            let n = r.usize()?;
            r.end()?;
            let exe = std::env::current_exe().map_err(|e| e.to_string())?;
            let mut child = std::process::Command::new(exe)
                .args(["cpu-child", &w.to_string(), &n.to_string()])
                .stdout(std::process::Stdio::null())
                .stderr(std::process::Stdio::null())
                .spawn()
                .map_err(|e| e.to_string())?;
            let start = std::time::Instant::now();
            let status = loop {
                if let Some(s) = child.try_wait().map_err(|e| e.to_string())? {
                    break Some(s);
                }
                if start.elapsed() > Duration::from_secs(120) {
                    child.kill().ok();
                    child.wait().ok();
                    break None;
                }
                std::thread::sleep(Duration::from_millis(5));
            };
            if status.map(|s| s.code() == Some(9)).unwrap_or(false) {
                return Err("the affinity mask could not be set in this environment".into());
            }
            let mut o = Outcome::new(format!("ok {n}"));
            o.check(status.is_some(), "a pipe in a process restricted to one CPU never ends");
            o.check(status.map(|s| s.code() == Some(0)).unwrap_or(true), "a pipe in a process restricted to one CPU is not the sequential map (items lost, or not processed exactly once)");
            Ok(o)
        }
        "pipemany" => {
            // `p` pipes of `w` workers each over long inputs are created, started and left idle (their workers block
            // in `send` or wait for their turn); a pipe created after them must still be the sequential map and end:
            // pipes share nothing.  p * w is chosen above the number of CPUs (a shared worker pool of that size would
            // be exhausted by the idle pipes).  Runs in a child process; a watchdog replaces "never ends".
            let p = r.usize()?;
            let w = r.usize()?;
            let n = r.usize()?;
            r.end()?;
            let exe = std::env::current_exe().map_err(|e| e.to_string())?;
            let mut child = std::process::Command::new(exe)
                .args(["many-child", &p.to_string(), &w.to_string(), &n.to_string()])
                .stdout(std::process::Stdio::null())
                .stderr(std::process::Stdio::null())
                .spawn()
                .map_err(|e| e.to_string())?;
            let start = std::time::Instant::now();
            let status = loop {
                if let Some(s) = child.try_wait().map_err(|e| e.to_string())? {
                    break Some(s);
                }
                if start.elapsed() > Duration::from_secs(90) {
                    child.kill().ok();
                    child.wait().ok();
                    break None;
                }
                std::thread::sleep(Duration::from_millis(5));
            };
            let mut o = Outcome::new(format!("ok {n}"));
            o.check(status.is_some(), "a pipe created while other pipes are idle yields nothing and never ends (the pipes are not independent)");
            o.check(status.map(|s| s.code() == Some(0)).unwrap_or(true), "a pipe created while other pipes are idle is not the sequential map");
            Ok(o)
        }
        "pipeidle" => {
            // free-running Pipe (real OS schedule) over a long upstream whose length is visible (sized = 1: exact
            // size hint) or hidden (sized = 0: behind a filter): consume k items, let the workers run ahead while the
            // consumer idles, then drop the pipe.  The lookahead must not depend on the input length.
            let w = r.usize()?;
            let n = r.nat()?;
            let k = r.usize()?;
            let sized = r.bool()?;
            r.end()?;
            Sched::uninstall();
            let pulled = Arc::new(AtomicUsize::new(0));
            let p2 = pulled.clone();
            let src: Box<dyn Iterator<Item = u64> + Send> = if sized {
                Box::new((0..n).map(move |i| {
                    p2.fetch_add(1, Ordering::SeqCst);
                    i
                }))
            } else {
                Box::new((0..n).filter(move |_| {
                    p2.fetch_add(1, Ordering::SeqCst);
                    true
                }))
            };
            let pipeline: Arc<dyn Fn(u64) -> u64 + Send + Sync> = Arc::new(f);
            let mut it = src.pipe(pipeline, w as u8);
            let mut got = vec![];
            for _ in 0..k {
                match it.next() {
                    Some(v) => got.push(v),
                    None => break,
                }
            }
            // wait until the pull counter has been stable for a while (at most a few seconds)
            let stable = |pulled: &AtomicUsize| {
                let start = std::time::Instant::now();
                let mut last = pulled.load(Ordering::SeqCst);
                let mut since = std::time::Instant::now();
                while start.elapsed() < Duration::from_secs(10) {
                    std::thread::sleep(Duration::from_millis(10));
                    let cur = pulled.load(Ordering::SeqCst);
                    if cur != last {
                        last = cur;
                        since = std::time::Instant::now();
                    } else if since.elapsed() > Duration::from_millis(150) {
                        break;
                    }
                }
                last
            };
            let ahead = stable(&pulled);
            drop(it);
            let after = stable(&pulled);
            let mut o = Outcome::new(format!("ok {}", got.len()));
            o.check(got.iter().enumerate().all(|(i, v)| *v == f(i as u64)), "received sequence is not f(x0), f(x1), ... in order");
            if w > 0 {
                // the current code: each worker holds at most one item, the channel at most `threads` results, i.e.
                // consumed + 2 * threads (theorem pipe_lookahead).  The property only asks for SOME constant that
                // depends on the thread count and not on the input length: the oracle allows a generous one.
                o.check(ahead <= got.len() + 4 * w + 8, "workers pulled more than consumed + 4 * threads + 8 items while the consumer was idle (lookahead depends on the input length)");
                o.check(after <= got.len() + 8 * w + 8, "workers kept pulling after the consumer dropped the iterator");
            } else {
                o.check(ahead <= got.len() && after <= got.len(), "unthreaded pipe pulled ahead of the consumer");
            }
            Ok(o)
        }
        "bufdrop" => {
            // Buffered over an effectively unbounded upstream: consume k items, check the lookahead, drop, check the stop
            let b = r.usize()?;
            let k = r.usize()?;
            let n = r.nat()?; // upstream length; 0 = unbounded
            r.end()?;
            let sched = Sched::new();
            sched.install();
            let pulled = Arc::new(AtomicUsize::new(0));
            let p2 = pulled.clone();
            let upper = if n == 0 { u64::MAX } else { n };
            let src = (0..upper).map(move |i| {
                p2.fetch_add(1, Ordering::SeqCst);
                i
            });
            let mut it = src.buffered(b);
            let mut got = vec![];
            for _ in 0..k {
                match it.next() {
                    Some(v) => got.push(v),
                    None => break,
                }
            }
            // let the producer run ahead as far as it can
            std::thread::sleep(Duration::from_millis(30));
            let ahead = pulled.load(Ordering::SeqCst);
            drop(it);
            // wait (generously: the machine may be busy) for the thread-exit schedule point, then the pull counter
            // must be stable
            let start = std::time::Instant::now();
            let mut exited = false;
            while start.elapsed() < Duration::from_secs(30) {
                if sched.observed().iter().any(|e| e.0 == "buffered" && e.1 == "exit") {
                    exited = true;
                    break;
                }
                std::thread::sleep(Duration::from_millis(5));
            }
            let p1 = pulled.load(Ordering::SeqCst);
            std::thread::sleep(Duration::from_millis(40));
            let p2v = pulled.load(Ordering::SeqCst);
            Sched::uninstall();
            let mut o = Outcome::new(format!("ok {}", got.len()));
            o.check(got.iter().enumerate().all(|(i, v)| *v == i as u64), "buffered iterator is not the upstream sequence");
            // the current code pulls at most buffer_size + 1 ahead; the property only asks for a constant depending on
            // the buffer size
            o.check(ahead <= got.len() + 4 * b + 8, "buffer thread pulled more than 4 * buffer_size + 8 items ahead");
            o.check(p1 == p2v, "buffer thread keeps pulling after the consumer dropped the iterator");
            o.check(p2v <= ahead + b + 2, "buffer thread kept pulling after the drop");
            o.check(exited, "buffer thread did not exit after the consumer dropped the iterator");
            Ok(o)
        }
        "pipepanic" | "pipepanic2" | "pipepanic3" | "pipepanic4" => {
            // pipepanic4: the consumer holds the locks of stdout and stderr while it iterates (a loop that writes the
            // results through a locked handle): the way out of a failing worker must not need them
            // pipepanic3: the panicking pipe was created while an older pipe was alive, and the older pipe is dropped
            // before the panic (the hand-over between two epochs of a loader)
            // pipepanic2: the panicking pipe is created after a healthy pipe and after another component replaced
            // the process-wide panic hook
            let w = r.usize()?;
            let n = r.usize()?;
            let j = r.usize()?;
            r.end()?;
            let exe = std::env::current_exe().map_err(|e| e.to_string())?;
            let mut child = std::process::Command::new(exe)
                .args([if op == "pipepanic" { "panic-child" } else if op == "pipepanic2" { "panic-child-later" } else if op == "pipepanic4" { "panic-child-locked" } else { "panic-child-handover" }, &w.to_string(), &n.to_string(), &j.to_string()])
                .stdout(std::process::Stdio::null())
                .stderr(std::process::Stdio::null())
                .spawn()
                .map_err(|e| e.to_string())?;
            let start = std::time::Instant::now();
            let status = loop {
                if let Some(s) = child.try_wait().map_err(|e| e.to_string())? {
                    break Some(s);
                }
                if start.elapsed() > Duration::from_secs(60) {
                    child.kill().ok();
                    child.wait().ok();
                    break None;
                }
                std::thread::sleep(Duration::from_millis(5));
            };
            let mut o = Outcome::new(match &status {
                Some(s) => format!("ok exit {}", s.code().unwrap_or(-1)),
                None => "hang".to_string(),
            });
            if j < n {
                o.check(status.is_some(), "process neither terminated nor finished: consumer blocked forever after a worker panic");
                o.check(status.map(|s| s.code() == Some(1)).unwrap_or(true), "panic in a worker did not terminate the process with status 1");
            } else {
                o.check(status.map(|s| s.code() == Some(0)).unwrap_or(false), "run without panic did not finish normally");
            }
            Ok(o)
        }
        _ => Err(format!("unknown op {op}")),
    }
}

/// child process of `pipepanic`: item j panics inside the pipeline function
/// like `panic_child`, but the panicking pipe is not the first one of the process: a healthy pipe ran before, and
/// some other component then installed its own (non-exiting) panic hook, as `train_bpe` does
pub fn panic_child_later(w: usize, n: usize, j: usize) -> ! {
    let healthy: Arc<dyn Fn(u64) -> u64 + Send + Sync> = Arc::new(f);
    let out: Vec<u64> = (0..5u64).pipe(healthy, 2).collect();
    if out.len() != 5 {
        std::process::exit(8);
    }
    std::panic::set_hook(Box::new(|_| {}));
    panic_child(w, n, j)
}

/// like `panic_child`, but the pipe is created while an older pipe is alive (and in use), and the older pipe is
/// dropped before the younger one is iterated: process-wide state (the panic hook) must not depend on the order in
/// which pipes are dropped
pub fn panic_child_handover(w: usize, n: usize, j: usize) -> ! {
    let healthy: Arc<dyn Fn(u64) -> u64 + Send + Sync> = Arc::new(f);
    let mut older = (0..1000u64).pipe(healthy, 2);
    if older.next() != Some(f(0)) {
        std::process::exit(8);
    }
    let pipeline: Arc<dyn Fn(u64) -> u64 + Send + Sync> = Arc::new(move |x| {
        if x as usize == j {
            panic!("injected panic at item {j}");
        }
        f(x)
    });
    let younger = (0..n as u64).pipe(pipeline, w as u8);
    drop(older);
    let out: Vec<u64> = younger.collect();
    std::process::exit(if out.len() == n { 0 } else { 7 })
}

pub fn panic_child(w: usize, n: usize, j: usize) -> ! {
    let pipeline: Arc<dyn Fn(u64) -> u64 + Send + Sync> = Arc::new(move |x| {
        if x as usize == j {
            panic!("injected panic at item {j}");
        }
        f(x)
    });
    let out: Vec<u64> = (0..n as u64).pipe(pipeline, w as u8).collect();
    std::process::exit(if out.len() == n { 0 } else { 7 })
}

/// child process: like `panic_child`, but the consumer holds the stdout and stderr locks while it iterates
pub fn panic_child_locked(w: usize, n: usize, j: usize) -> ! {
    let pipeline: Arc<dyn Fn(u64) -> u64 + Send + Sync> = Arc::new(move |x| {
        if x as usize == j {
            panic!("injected panic at item {j}");
        }
        f(x)
    });
    let out_lock = std::io::stdout().lock();
    let err_lock = std::io::stderr().lock();
    let out: Vec<u64> = (0..n as u64).pipe(pipeline, w as u8).collect();
    drop(err_lock);
    drop(out_lock);
    std::process::exit(if out.len() == n { 0 } else { 7 })
}

/// a pure function that needs about `kib` KiB of stack for the items with x % 7 == 3 (recursion with a 1 KiB frame)
#[inline(never)]
fn deep(x: u64, depth: u64) -> u64 {
    let mut buf = [0u8; 1024];
    buf[(x % 1024) as usize] = depth as u8;
    let b = std::hint::black_box(&mut buf);
    if depth == 0 {
        return x.wrapping_mul(31) + b[(x % 1024) as usize] as u64;
    }
    deep(x.wrapping_add(b[0] as u64), depth - 1).wrapping_add(b[(depth % 1024) as usize] as u64)
}

fn f_deep(x: u64, kib: u64) -> u64 {
    if x % 7 == 3 {
        deep(x, kib)
    } else {
        f(x)
    }
}

/// child process: the piped map with a processing function that needs a deep (but ordinary: well below the default
/// thread stack) stack; exit code 0 iff the output is the sequential map
pub fn deep_child(w: usize, n: usize, kib: u64) -> ! {
    // the sequential reference runs on a thread with a generous stack
    let want: Vec<u64> = std::thread::Builder::new()
        .stack_size(64 << 20)
        .spawn(move || (0..n as u64).map(|x| f_deep(x, kib)).collect())
        .unwrap()
        .join()
        .unwrap();
    let pipeline: Arc<dyn Fn(u64) -> u64 + Send + Sync> = Arc::new(move |x| f_deep(x, kib));
    let out: Vec<u64> = (0..n as u64).pipe(pipeline, w as u8).collect();
    std::process::exit(if out == want { 0 } else { 7 })
}

extern "C" {
    fn sched_setaffinity(pid: i32, cpusetsize: usize, mask: *const u64) -> i32;
    fn sched_getaffinity(pid: i32, cpusetsize: usize, mask: *mut u64) -> i32;
}

/// child process of `pipecpu`: restricts itself to the first CPU it is allowed to use, then pipes
pub fn cpu_child(w: usize, n: usize) -> ! {
    let mut mask = [0u64; 16];
    // SAFETY: plain libc calls on a properly sized, initialised buffer
    let ok = unsafe { sched_getaffinity(0, std::mem::size_of_val(&mask), mask.as_mut_ptr()) } == 0;
    let first = mask.iter().enumerate().find(|(_, m)| **m != 0).map(|(i, m)| (i, m.trailing_zeros()));
    let Some((word, bit)) = first.filter(|_| ok) else { std::process::exit(9) };
    let mut one = [0u64; 16];
    one[word] = 1u64 << bit;
    if unsafe { sched_setaffinity(0, std::mem::size_of_val(&one), one.as_ptr()) } != 0 {
        std::process::exit(9);
    }
    let calls = Arc::new(AtomicUsize::new(0));
    let c2 = calls.clone();
    let fun: Arc<dyn Fn(u64) -> u64 + Send + Sync> = Arc::new(move |x| {
        c2.fetch_add(1, Ordering::SeqCst);
        f(x)
    });
    let out: Vec<u64> = (0..n as u64).pipe(fun, w as u8).collect();
    let want: Vec<u64> = (0..n as u64).map(f).collect();
    std::process::exit(if out == want && calls.load(Ordering::SeqCst) == n { 0 } else { 7 })
}

/// child process of `pipemany`
pub fn many_child(p: usize, w: usize, n: usize) -> ! {
    let fun: Arc<dyn Fn(u64) -> u64 + Send + Sync> = Arc::new(f);
    let mut idle = vec![];
    for k in 0..p {
        let mut it = (0..100_000u64).pipe(fun.clone(), w as u8);
        // started: one item consumed, the rest left to back-pressure
        if it.next() != Some(f(0)) {
            std::process::exit(8 + (k as i32 % 2));
        }
        idle.push(it);
    }
    std::thread::sleep(Duration::from_millis(50));
    let out: Vec<u64> = (0..n as u64).pipe(fun.clone(), w.max(1) as u8).collect();
    let want: Vec<u64> = (0..n as u64).map(f).collect();
    std::process::exit(if out == want { 0 } else { 7 })
}

pub fn emit_trace(ctx: &mut Ctx, w: usize, n: usize, evs: &[Ev]) {
    let mut v = vec![w as u64, n as u64];
    enc_events(&mut v, evs);
    ctx.case("pipetrace", &v);
}

/// one controlled execution under a seeded random policy; `drop_after`: drop once that many items were received
pub fn random_run(w: usize, n: usize, seed: u64, drop_after: Option<usize>, spin_prob: f64) -> Result<Vec<Ev>, String> {
    let mut rng = ChaCha8Rng::seed_from_u64(seed);
    let mut run = Run::new(w, n)?;
    // PCT-like: a random priority order of the participants, changed at a few random steps
    let mut guard = 0;
    loop {
        if let Some(k) = drop_after {
            if run.can_drop() && run.recvd.len() >= k && rng.random_bool(0.5) {
                run.step(&Act::Drop)?;
            }
        }
        let spins = rng.random_bool(spin_prob);
        let mut en = run.enabled(spins);
        if en.is_empty() {
            en = run.enabled(true);
        }
        if en.is_empty() {
            break;
        }
        let a = en[rng.random_range(0..en.len())].clone();
        run.step(&a)?;
        guard += 1;
        if guard > 200 * (n + w + 2) {
            run.finish().ok();
            return Err("schedule does not terminate".into());
        }
    }
    let evs = run.events.clone();
    run.finish()?;
    Ok(evs)
}

/// depth-first enumeration of all schedules (progress-making actions only), by prefix replay
pub fn dfs(ctx: &mut Ctx, w: usize, n: usize, with_drop: bool, max_runs: usize) -> (usize, bool) {
    let mut prefix: Vec<usize> = vec![];
    let mut runs = 0;
    loop {
        // run following `prefix` (choice indices), then always choice 0; record the number of alternatives per step
        let mut alts: Vec<usize> = vec![];
        let mut taken: Vec<usize> = vec![];
        let Ok(mut run) = Run::new(w, n) else { return (runs, false) };
        let mut step = 0;
        loop {
            let mut en = run.enabled(false);
            if with_drop && run.can_drop() {
                en.push(Act::Drop);
            }
            if en.is_empty() {
                break;
            }
            let c = if step < prefix.len() { prefix[step] } else { 0 };
            let c = c.min(en.len() - 1);
            alts.push(en.len());
            taken.push(c);
            if run.step(&en[c]).is_err() {
                break;
            }
            step += 1;
            if step > 100 * (n + w + 2) {
                break;
            }
        }
        let evs = run.events.clone();
        run.finish().ok();
        emit_trace(ctx, w, n, &evs);
        runs += 1;
        // backtrack: deepest step with an untried alternative
        let mut d = taken.len();
        loop {
            if d == 0 {
                return (runs, true);
            }
            d -= 1;
            if taken[d] + 1 < alts[d] {
                prefix = taken[..d].to_vec();
                prefix.push(taken[d] + 1);
                break;
            }
        }
        if runs >= max_runs {
            return (runs, false);
        }
    }
}

pub fn run_c05(ctx: &mut Ctx) {
    // the workers busy-wait on `send_next`: on an oversubscribed machine a run can be slow without being stuck
    ctx.case_timeout = Duration::from_secs(240);
    // controlled schedules: seeded random walks
    let n_runs = ctx.budget(250, 6000);
    for i in 0..n_runs {
        let w = ctx.rng.random_range(1..=if i % 5 == 0 { 6 } else { 3 });
        let n = ctx.rng.random_range(0..=if i % 7 == 0 { 20 } else { 6 });
        let seed = ctx.rng.random();
        let spin_prob = [0.0, 0.1, 0.5][ctx.rng.random_range(0..3)];
        ctx.guard(format!("pipewalk {w} {n} {seed} {} 0", (spin_prob * 10.0) as u64));
        let res = random_run(w, n, seed, None, spin_prob);
        ctx.unguard();
        match res {
            Ok(evs) => emit_trace(ctx, w, n, &evs),
            Err(e) => {
                // could not even produce a schedule: report through a request that the exec side will fail on
                ctx.count(&format!("schedule-error:{e}"));
                emit_trace(ctx, w, n, &[]);
            }
        }
    }
    if ctx.first_shard() {
        // exhaustive DFS over all schedules of small configurations
        let cfgs: &[(usize, usize, usize)] = if ctx.thorough { &[(1, 2, 5000), (2, 1, 20000), (2, 2, 60000), (3, 1, 60000), (1, 4, 20000), (2, 3, 40000), (3, 2, 40000)] } else { &[(1, 2, 300), (2, 1, 600)] };
        for &(w, n, cap) in cfgs {
            ctx.guard(format!("pipewalk {w} {n} 0 1 0"));
            let (runs, complete) = dfs(ctx, w, n, false, cap);
            ctx.unguard();
            ctx.count(&format!("dfs:W{w}:n{n}:runs{runs}:complete{complete}"));
        }
    }
    // one slow item (the consumer must wait, however long an item takes)
    if ctx.first_shard() {
        let slow: &[(u64, u64, u64, u64)] = if ctx.thorough { &[(1, 5, 4, 1500), (2, 8, 3, 2500), (4, 6, 0, 4000), (3, 7, 6, 1200)] } else { &[(2, 6, 2, 1500)] };
        for &(w, n, j, ms) in slow {
            ctx.case("pipeslow", &[w, n, j, ms]);
        }
    }
    // wall-clock stalls of several seconds (an item that takes long, a consumer that pauses): once per run
    if ctx.first_shard() {
        let stalls: &[(u64, u64, u64, u64, u64, u64)] = if ctx.thorough { &[(2, 60, 7, 6500, 20, 3000), (1, 40, 3, 6500, 9, 3000), (4, 90, 30, 11000, 50, 5000)] } else { &[(2, 60, 7, 6500, 20, 3000)] };
        for &(w, n, j, slow, after, pause) in stalls {
            ctx.case("pipestall", &[w, n, j, slow, after, pause]);
        }
    }
    // upstreams that are not fused
    let n_gap = ctx.budget(40, 1500);
    for i in 0..n_gap {
        let w = ctx.rng.random_range(0..=4u64);
        let len = ctx.rng.random_range(1..=if i % 10 == 0 { 300 } else { 24 });
        let p_gap = [0.05, 0.15, 0.4][ctx.rng.random_range(0..3)];
        let entries: Vec<u64> = (0..len).map(|_| if ctx.rng.random_bool(p_gap) { 0 } else { 1 }).collect();
        let k = if i % 3 == 0 { ctx.rng.random_range(0..=len) } else { u64::MAX };
        let mut v = vec![w, k];
        enc_nats(&mut v, entries.iter().copied());
        ctx.case("pipegap", &v);
    }
    // many pipes alive at once (more workers than CPUs), the last one must not depend on the others
    if ctx.first_shard() {
        let cpus = std::thread::available_parallelism().map(|x| x.get() as u64).unwrap_or(16);
        let many: &[(u64, u64)] = if ctx.thorough { &[(1, 300), (4, 300), (2, 1000)] } else { &[(2, 300)] };
        for &(w, n) in many {
            ctx.case("pipemany", &[(cpus + 4 + w - 1) / w + 1, w, n]);
        }
    }
    // a process that may use one CPU only
    if ctx.first_shard() {
        let one: &[(u64, u64)] = if ctx.thorough { &[(0, 30), (1, 30), (2, 40), (3, 40), (8, 60)] } else { &[(1, 20), (3, 40)] };
        for &(w, n) in one {
            ctx.case("pipecpu", &[w, n]);
        }
    }
    // a processing function with a deep (but ordinary) stack need, in a child process
    if ctx.first_shard() {
        let deepc: &[(u64, u64, u64)] = if ctx.thorough { &[(0, 20, 600), (1, 20, 600), (4, 40, 900), (2, 30, 400)] } else { &[(0, 12, 600), (3, 24, 600)] };
        for &(w, n, kib) in deepc {
            ctx.case("pipedeep", &[w, n, kib]);
        }
    }
    // uncontrolled stress
    let n_stress = ctx.budget(40, 1500);
    for _ in 0..n_stress {
        let w = ctx.rng.random_range(0..=6u64);
        let n = ctx.rng.random_range(0..=200u64);
        let seed = ctx.rng.random_range(0..1000u64);
        ctx.case("pipestress", &[w, n, seed]);
    }
}

pub fn run_c09(ctx: &mut Ctx) {
    ctx.case_timeout = Duration::from_secs(240);
    let n_runs = ctx.budget(200, 5000);
    for i in 0..n_runs {
        let w = ctx.rng.random_range(1..=4);
        let n = if i % 4 == 0 { 200 } else { ctx.rng.random_range(0..=12) };
        let k = ctx.rng.random_range(0..=20usize.min(n));
        let seed = ctx.rng.random();
        ctx.guard(format!("pipewalk {w} {n} {seed} 1 {}", k + 1));
        let res = random_run(w, n, seed, Some(k), 0.1);
        ctx.unguard();
        match res {
            Ok(evs) => emit_trace(ctx, w, n, &evs),
            Err(e) => {
                ctx.count(&format!("schedule-error:{e}"));
                emit_trace(ctx, w, n, &[]);
            }
        }
    }
    if ctx.first_shard() {
        let cfgs: &[(usize, usize, usize)] = if ctx.thorough { &[(1, 2, 20000), (2, 1, 60000), (2, 2, 60000), (1, 3, 20000), (3, 1, 40000)] } else { &[(1, 1, 300), (2, 1, 600)] };
        for &(w, n, cap) in cfgs {
            ctx.guard(format!("pipewalk {w} {n} 0 1 1"));
            let (runs, complete) = dfs(ctx, w, n, true, cap);
            ctx.unguard();
            ctx.count(&format!("dfs-drop:W{w}:n{n}:runs{runs}:complete{complete}"));
        }
    }
    let nb = ctx.budget(12, 200);
    for i in 0..nb {
        let b = ctx.rng.random_range(0..=8u64);
        let k = ctx.rng.random_range(0..=20u64);
        let n = if i % 3 == 0 { ctx.rng.random_range(0..=30u64) } else { 0 };
        ctx.case("bufdrop", &[b, k, n]);
    }
    // free-running lookahead over long inputs whose length is visible / hidden to the pipe
    let ni = ctx.budget(6, 60);
    for i in 0..ni {
        let w = ctx.rng.random_range(0..=4u64);
        let n = [50u64, 3000, 20000, 1 << 40][ctx.rng.random_range(0..4)];
        let k = ctx.rng.random_range(0..=10u64);
        ctx.case("pipeidle", &[w, n, k, i % 2]);
    }
    // upstreams that are not fused (None, then items again): the workers must still exit after the drop / the end
    let n_gap = ctx.budget(40, 1500);
    for i in 0..n_gap {
        let w = ctx.rng.random_range(1..=4u64);
        let len = ctx.rng.random_range(1..=if i % 10 == 0 { 2000 } else { 30 });
        let p_gap = [0.02, 0.1, 0.3][ctx.rng.random_range(0..3)];
        let entries: Vec<u64> = (0..len).map(|_| if ctx.rng.random_bool(p_gap) { 0 } else { 1 }).collect();
        let k = if i % 2 == 0 { ctx.rng.random_range(0..=len.min(12)) } else { u64::MAX };
        let mut v = vec![w, k];
        enc_nats(&mut v, entries.iter().copied());
        ctx.case("pipegap", &v);
    }
    // a panic in the very first item while the constructor is still spawning workers
    if ctx.first_shard() {
        let early: &[(u64, u64)] = if ctx.thorough { &[(16, 40), (32, 40), (64, 40), (16, 40), (32, 40)] } else { &[(16, 40), (32, 40)] };
        for &(w, n) in early {
            ctx.case("pipepanic", &[w, n, 0]);
        }
    }
    let np = ctx.budget(6, 60);
    for i in 0..np {
        let w = ctx.rng.random_range(1..=4u64);
        let n = ctx.rng.random_range(1..=30u64);
        let j = ctx.rng.random_range(0..=n + 1);
        ctx.case(["pipepanic", "pipepanic3", "pipepanic2"][i as usize % 3], &[w, n, j]);
    }
    if ctx.first_shard() {
        ctx.case("pipepanic4", &[2, 12, 5]);
        ctx.case("pipepanic4", &[1, 8, 0]);
        ctx.case("pipepanic4", &[3, 9, 20]);
        ctx.case("pipepanic2", &[2, 12, 5]);
        ctx.case("pipepanic3", &[2, 12, 5]);
        ctx.case("pipepanic3", &[3, 40, 0]);
    }
}
