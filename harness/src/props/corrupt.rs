//! C15 — spelling corruption: edit_word with the real context-table providers
use crate::ctx::{Ctx, Outcome};
use crate::wire::*;
use rand::{Rng, SeedableRng};
use rand_chacha::ChaCha8Rng;
use std::borrow::Cow;
use std::collections::{HashMap, HashSet};
use text_utils::corrupt::{edit_word, DeleteEdits, InsertEdits, ReplaceEdits, SwapEdits};

const FROZEN: &str = "z";

fn can_delete(s: &str) -> bool {
    s != FROZEN
}
fn can_swap(a: &str, b: &str) -> bool {
    a != b && a != FROZEN && b != FROZEN
}

type InsTbl = Vec<((String, String), Vec<String>)>;
type RepTbl = Vec<((String, String, String), Vec<String>)>;

struct Cfg {
    ins: Option<InsTbl>,
    del: Option<bool>,
    rep: Option<RepTbl>,
    swap: bool,
}

fn run(word: &str, g: bool, seed: u64, cfg: &Cfg, excl: &[usize]) -> (String, Vec<usize>) {
    let mut rng = ChaCha8Rng::seed_from_u64(seed);
    let ins = cfg.ins.as_ref().map(|t| InsertEdits {
        insertions: t.iter().map(|((a, b), es)| ((Cow::Owned(a.clone()), Cow::Owned(b.clone())), (es.clone(), vec![1.0; es.len()]))).collect::<HashMap<_, _>>(),
    });
    let rep = cfg.rep.as_ref().map(|t| ReplaceEdits {
        replacements: t
            .iter()
            .map(|((a, b, c), es)| ((Cow::Owned(a.clone()), Cow::Owned(b.clone()), Cow::Owned(c.clone())), (es.clone(), vec![1.0; es.len()])))
            .collect::<HashMap<_, _>>(),
    });
    let del = cfg.del.map(|full| DeleteEdits { full_delete: full, can_delete: can_delete as fn(&str) -> bool });
    let sw = if cfg.swap { Some(SwapEdits { can_swap: can_swap as fn(&str, &str) -> bool }) } else { None };
    let ex: HashSet<usize> = excl.iter().copied().collect();
    let (w, e) = edit_word(word, g, &mut rng, ins.as_ref(), del.as_ref(), rep.as_ref(), sw.as_ref(), Some(ex));
    let mut e: Vec<usize> = e.into_iter().collect();
    e.sort();
    (w, e)
}

/// does `res` contain a grapheme cluster that occurs neither in `word` nor in any edit string of `cfg`?
fn fused(word: &str, cfg: &Cfg, res: &str) -> bool {
    let mut known: HashSet<Vec<u64>> = clusters(word, true).into_iter().collect();
    let mut add = |es: &Vec<String>| {
        for e in es {
            known.extend(clusters(e, true));
        }
    };
    if let Some(t) = &cfg.ins {
        t.iter().for_each(|(_, es)| add(es));
    }
    if let Some(t) = &cfg.rep {
        t.iter().for_each(|(_, es)| add(es));
    }
    clusters(res, true).iter().any(|c| !known.contains(c))
}

fn rd_cl(r: &mut Rd) -> R<String> {
    cps_to_string(&r.nats()?)
}

fn rd_edits(r: &mut Rd, g: bool) -> R<Vec<String>> {
    r.list(|r| {
        let t = r.text()?;
        let s = text_to_string(&t)?;
        if clusters(&s, g) != t {
            return Err("edit string segmentation differs from request".into());
        }
        Ok(s)
    })
}

pub fn exec(op: &str, a: &[u64]) -> Result<Outcome, String> {
    if op != "editword" {
        return Err(format!("unknown op {op}"));
    }
    // the request records the observed result; the seed (< 64) is recovered by search, so the model part of the
    // request stays free of anything the model does not use
    let mut r = Rd::new(a);
    let g = r.bool()?;
    let wt = r.text()?;
    let word = text_to_string(&wt)?;
    if clusters(&word, g) != wt {
        return Err("segmentation differs from request".into());
    }
    let excl: Vec<usize> = r.nats()?.into_iter().map(|x| x as usize).collect();
    let ins = r.opt(|r| r.list(|r| Ok(((rd_cl(r)?, rd_cl(r)?), rd_edits(r, g)?))))?;
    let del = r.opt(|r| r.bool())?;
    let rep = r.opt(|r| r.list(|r| Ok(((rd_cl(r)?, rd_cl(r)?, rd_cl(r)?), rd_edits(r, g)?))))?;
    let swap = r.bool()?;
    let frozen = rd_cl(&mut r)?;
    if frozen != FROZEN {
        return Err("frozen character differs from the harness predicate".into());
    }
    let rw_t = r.text()?;
    let rexcl: Vec<usize> = r.nats()?.into_iter().map(|x| x as usize).collect();
    r.end()?;
    let cfg = Cfg { ins, del, rep, swap };
    // find a seed that reproduces the recorded observation (the generator used a seed < 64)
    let want_w = text_to_string(&rw_t)?;
    let mut found = None;
    for seed in 0..64u64 {
        let (w, e) = run(&word, g, seed, &cfg, &excl);
        if w == want_w && e == rexcl {
            found = Some((w, e));
            break;
        }
    }
    let Some((w, e)) = found else {
        return Err("no seed < 64 reproduces the recorded result".into());
    };
    let mut o = Outcome::new("accept".to_string());
    // C15 oracle on the implementation's result
    let n_new = clusters(&w, g).len();
    let rw_real = clusters(&w, g);
    if rw_real != rw_t {
        o.check(false, "result segmentation differs from the recorded one");
        return Ok(o);
    }
    // F16: in grapheme mode an inserted / replacing string can fuse with a neighbouring character when the edited
    // word is segmented again: the result then contains a cluster that is neither a character of the word nor of
    // any edit string, and positions (hence the returned exclusion set) no longer refer to the same characters
    if g && fused(&word, &cfg, &w) {
        o.check(false, "F16 edited word re-segments differently (an edit string fuses with a neighbouring character into a new grapheme cluster)");
        return Ok(o);
    }
    o.check(e.iter().all(|&i| i < n_new), "returned exclusion index outside the new word");
    // protected characters are preserved at their re-mapped positions
    let old = clusters(&word, g);
    let delta = n_new as i64 - old.len() as i64;
    if w != word {
        // position of the edit: first difference
        let p = old.iter().zip(rw_real.iter()).take_while(|(x, y)| x == y).count();
        for &i in &excl {
            if i >= old.len() {
                continue;
            }
            let j = if i < p { i as i64 } else { i as i64 + delta };
            let ok = j >= 0 && (j as usize) < rw_real.len() && rw_real[j as usize] == old[i];
            // a swap keeps the length: excluded positions are untouched
            o.check(ok || (delta == 0 && rw_real.get(i) == old.get(i)), "character at an excluded position was altered");
        }
        let old_len = old.len() as i64;
        o.check((n_new as i64 - old_len).abs() <= 8, "more than one bounded edit");
        // the returned set contains the old set re-indexed for the length change.  The edit replaced some span
        // old[p'..len-s') (at most two characters: a swap) by a span of the new word; with repeated characters
        // several (p', s') explain the same pair of words, so the clause is demanded existentially: for SOME
        // explanation every protected position lies in the untouched prefix (index kept) or suffix (index moved by
        // the length difference) and is in the returned set.
        let pmax = p.min(old.len()).min(rw_real.len());
        let qmax = old.iter().rev().zip(rw_real.iter().rev()).take_while(|(x, y)| x == y).count();
        let mut explained = false;
        'outer: for pp in 0..=pmax {
            for ss in 0..=qmax {
                if pp + ss > old.len() || pp + ss > rw_real.len() || old.len() - pp - ss > 2 {
                    continue;
                }
                let ok = excl.iter().filter(|&&i| i < old.len()).all(|&i| {
                    if i < pp {
                        e.contains(&i)
                    } else if i >= old.len() - ss {
                        let j = i as i64 + delta;
                        j >= 0 && e.contains(&(j as usize))
                    } else {
                        false
                    }
                });
                if ok {
                    explained = true;
                    break 'outer;
                }
            }
        }
        o.check(explained, "returned exclusion set is not the old set re-indexed for the length change (a protected position was lost, not shifted, or edited)");
    } else {
        let mut ex = excl.clone();
        ex.sort();
        ex.dedup();
        // an edit may reproduce the same word (replacement by the same string): the old exclusions must survive
        o.check(ex.iter().all(|i| e.contains(i)), "word unchanged but an excluded position was dropped");
    }
    Ok(o)
}

fn enc_cl(v: &mut Vec<u64>, s: &str) {
    enc_str(v, s);
}

fn enc_edits(v: &mut Vec<u64>, es: &[String], g: bool) {
    v.push(es.len() as u64);
    for e in es {
        v.extend(enc_text(e, g));
    }
}

fn emit(ctx: &mut Ctx, word: &str, g: bool, cfg: &Cfg, excl: &[usize], seed: u64) -> Option<(String, Vec<usize>)> {
    let res = std::panic::catch_unwind(std::panic::AssertUnwindSafe(|| run(word, g, seed, cfg, excl)));
    let mut v = vec![g as u64];
    v.extend(enc_text(word, g));
    enc_nats(&mut v, excl.iter().map(|&x| x as u64));
    match &cfg.ins {
        Some(t) => {
            v.push(1);
            v.push(t.len() as u64);
            for ((a, b), es) in t {
                enc_cl(&mut v, a);
                enc_cl(&mut v, b);
                enc_edits(&mut v, es, g);
            }
        }
        None => v.push(0),
    }
    match cfg.del {
        Some(f) => v.extend([1, f as u64]),
        None => v.push(0),
    }
    match &cfg.rep {
        Some(t) => {
            v.push(1);
            v.push(t.len() as u64);
            for ((a, b, c), es) in t {
                enc_cl(&mut v, a);
                enc_cl(&mut v, b);
                enc_cl(&mut v, c);
                enc_edits(&mut v, es, g);
            }
        }
        None => v.push(0),
    }
    v.push(cfg.swap as u64);
    enc_cl(&mut v, FROZEN);
    match res {
        Ok((w, e)) => {
            v.extend(enc_text(&w, g));
            enc_nats(&mut v, e.iter().map(|&x| x as u64));
            ctx.case("editword", &v);
            Some((w, e))
        }
        Err(_) => {
            // the implementation panicked: record a request whose observation part is empty; exec will hit the
            // same panic under catch_unwind and report it
            v.extend(enc_text(word, g));
            enc_nats(&mut v, excl.iter().map(|&x| x as u64));
            ctx.case("editword", &v);
            None
        }
    }
}

const CHARS: &[&str] = &["a", "b", "z", "\u{e4}", "c"];

fn rand_word(ctx: &mut Ctx) -> String {
    let n = [0usize, 1, 1, 2, 3, 4, 5][ctx.rng.random_range(0..7)];
    (0..n).map(|_| CHARS[ctx.rng.random_range(0..CHARS.len())]).collect()
}

fn rand_ctx_char(ctx: &mut Ctx, bow: bool, eow: bool) -> String {
    let r = ctx.rng.random_range(0..10);
    if r == 0 && bow {
        "<bow>".into()
    } else if r == 1 && eow {
        "<eow>".into()
    } else {
        CHARS[ctx.rng.random_range(0..CHARS.len())].into()
    }
}

fn rand_edits(ctx: &mut Ctx, allow_empty: bool) -> Vec<String> {
    let n = ctx.rng.random_range(1..=3);
    (0..n)
        .map(|_| match ctx.rng.random_range(0..8) {
            0 if allow_empty => String::new(),
            1 => "xy".into(),
            2 => "\u{4e2d}".into(),
            3 => "a\u{e4}c".into(),
            // strings whose number of code points differs from their number of grapheme clusters (a base letter
            // with a mark that has no precomposed form): the two unit modes count them differently
            5 if ctx.rng.random_range(0..2) == 0 => ["e\u{301}", "x\u{30c}y\u{30c}", "b\u{301}\u{302}"][ctx.rng.random_range(0..3)].into(),
            // a combining mark: in grapheme mode it fuses with the character before it (F16)
            4 if ctx.rng.random_range(0..4) == 0 => "\u{301}".into(),
            _ => CHARS[ctx.rng.random_range(0..CHARS.len())].into(),
        })
        .collect()
}

pub fn run_c15(ctx: &mut Ctx) {
    let n = ctx.budget(1500, 60000);
    for i in 0..n {
        let g = ctx.rng.random_bool(0.5);
        let word = rand_word(ctx);
        let nchars = clusters(&word, g).len();
        let kinds: u32 = ctx.rng.random_range(0..16);
        // dense context tables: every context of the small alphabet has a high chance to be present
        let ins: Option<InsTbl> = if kinds & 1 != 0 {
            let mut t: InsTbl = vec![];
            for _ in 0..ctx.rng.random_range(0..=12) {
                let k = (rand_ctx_char(ctx, true, false), rand_ctx_char(ctx, false, true));
                if !t.iter().any(|e| e.0 == k) {
                    let es = rand_edits(ctx, i % 5 == 0);
                    t.push((k, es));
                }
            }
            Some(t)
        } else {
            None
        };
        let rep: Option<RepTbl> = if kinds & 4 != 0 {
            let mut t: RepTbl = vec![];
            for _ in 0..ctx.rng.random_range(0..=20) {
                let k = (rand_ctx_char(ctx, true, false), rand_ctx_char(ctx, false, false), rand_ctx_char(ctx, false, true));
                if !t.iter().any(|e| e.0 == k) {
                    let es = rand_edits(ctx, true);
                    t.push((k, es));
                }
            }
            Some(t)
        } else {
            None
        };
        let cfg = Cfg { ins, del: if kinds & 2 != 0 { Some(ctx.rng.random_bool(0.5)) } else { None }, rep, swap: kinds & 8 != 0 };
        let mut excl: Vec<usize> = (0..nchars).filter(|_| ctx.rng.random_bool(0.25)).collect();
        // chains of repeated edits with the returned exclusion set, as corrupt_spelling does
        let chain = ctx.rng.random_range(1..=4);
        let mut w = word.clone();
        for _ in 0..chain {
            let seed = ctx.rng.random_range(0..64);
            match emit(ctx, &w, g, &cfg, &excl, seed) {
                Some((w2, e2)) => {
                    // stop a chain whose result re-segments differently (F16)
                    if g && fused(&w, &cfg, &w2) {
                        break;
                    }
                    w = w2;
                    excl = e2;
                }
                None => break,
            }
        }
    }
}
