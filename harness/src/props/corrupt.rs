//! C15 — spelling corruption: edit_word with the real context-table providers
use crate::ctx::{Ctx, Outcome};
use crate::wire::*;
use rand::{Rng, SeedableRng};
use rand_chacha::ChaCha8Rng;
use std::borrow::Cow;
use std::collections::{HashMap, HashSet};
use text_utils::corrupt::{edit_word, CanEdit, DeleteEdits, InsertEdits, ReplaceEdits, SwapEdits};
use text_utils::unicode::CharString;

const FROZEN: &str = "z";

fn can_delete(s: &str) -> bool {
    s != FROZEN
}
fn can_swap(a: &str, b: &str) -> bool {
    a != b && a != FROZEN && b != FROZEN
}

/// the swap predicate handed to `edit_word`: the crate's `SwapEdits`, or (odd seeds) an own implementation of the public
/// trait that gives the same answers for every position that has a right neighbour and ALSO says yes for positions
/// that have none: `edit_word` must not depend on the predicate to stay inside the word
enum Swap {
    Crate(SwapEdits),
    Own,
}
impl CanEdit for Swap {
    fn can_edit(&self, cs: &CharString, idx: &usize) -> bool {
        match self {
            Swap::Crate(s) => s.can_edit(cs, idx),
            Swap::Own => match (cs.get(*idx), cs.get(idx + 1)) {
                (Some(a), Some(b)) => can_swap(a, b),
                _ => true,
            },
        }
    }
}
/// likewise for deletions: yes for every position outside the word
enum Del {
    Crate(DeleteEdits),
    Own(bool),
}
impl CanEdit for Del {
    fn can_edit(&self, cs: &CharString, idx: &usize) -> bool {
        match self {
            Del::Crate(d) => d.can_edit(cs, idx),
            Del::Own(full) => match cs.get(*idx) {
                Some(s) => (*full || cs.len() > 1) && can_delete(s),
                None => true,
            },
        }
    }
}

type InsTbl = Vec<((String, String), Vec<String>)>;
type RepTbl = Vec<((String, String, String), Vec<String>)>;

struct Cfg {
    ins: Option<InsTbl>,
    del: Option<bool>,
    rep: Option<RepTbl>,
    swap: bool,
}

fn run(word: &str, g: bool, seed: u64, cfg: &Cfg, excl: &[usize]) -> (String, Vec<usize>) {
    let mut rng = ChaCha8Rng::seed_from_u64(seed);
    let ins = cfg.ins.as_ref().map(|t| InsertEdits {
        insertions: t.iter().map(|((a, b), es)| ((Cow::Owned(a.clone()), Cow::Owned(b.clone())), (es.clone(), vec![1.0; es.len()]))).collect::<HashMap<_, _>>(),
    });
    let rep = cfg.rep.as_ref().map(|t| ReplaceEdits {
        replacements: t
            .iter()
            .map(|((a, b, c), es)| ((Cow::Owned(a.clone()), Cow::Owned(b.clone()), Cow::Owned(c.clone())), (es.clone(), vec![1.0; es.len()])))
            .collect::<HashMap<_, _>>(),
    });
    let own = seed % 2 == 1;
    let del = cfg.del.map(|full| if own { Del::Own(full) } else { Del::Crate(DeleteEdits { full_delete: full, can_delete: can_delete as fn(&str) -> bool }) });
    let sw = if cfg.swap { Some(if own { Swap::Own } else { Swap::Crate(SwapEdits { can_swap: can_swap as fn(&str, &str) -> bool }) }) } else { None };
    let ex: HashSet<usize> = excl.iter().copied().collect();
    let (w, e) = edit_word(word, g, &mut rng, ins.as_ref(), del.as_ref(), rep.as_ref(), sw.as_ref(), Some(ex));
    let mut e: Vec<usize> = e.into_iter().collect();
    e.sort();
    (w, e)
}

/// does `res` contain a grapheme cluster that occurs neither in `word` nor in any edit string of `cfg`?
fn fused(word: &str, cfg: &Cfg, res: &str) -> bool {
    let mut known: HashSet<Vec<u64>> = clusters(word, true).into_iter().collect();
    let mut add = |es: &Vec<String>| {
        for e in es {
            known.extend(clusters(e, true));
        }
    };
    if let Some(t) = &cfg.ins {
        t.iter().for_each(|(_, es)| add(es));
    }
    if let Some(t) = &cfg.rep {
        t.iter().for_each(|(_, es)| add(es));
    }
    clusters(res, true).iter().any(|c| !known.contains(c))
}

fn rd_cl(r: &mut Rd) -> R<String> {
    cps_to_string(&r.nats()?)
}

fn rd_edits(r: &mut Rd, g: bool) -> R<Vec<String>> {
    r.list(|r| {
        let t = r.text()?;
        let s = text_to_string(&t)?;
        if clusters(&s, g) != t {
            return Err("edit string segmentation differs from request".into());
        }
        Ok(s)
    })
}

fn tmp() -> String {
    let d = match std::env::var("TU_HARNESS_TMP") {
        Ok(root) => format!("{root}/sp"),
        Err(_) => format!("/verif/work/sp-{}", std::process::id()),
    };
    std::fs::create_dir_all(&d).ok();
    d
}

/// `spellprep`: the spelling-corruption preprocessing step with edit tables the crate builds itself from a
/// characters file (3-grams `prev cur next<TAB>frequency`; the separators inside a key are any white space, so one
/// 3-gram can occur under several spellings), which chains `edit_word` with the returned exclusion sets.
/// request: seed, character-edit probability (permille), full_delete, text, entries (prev, cur, next, freq, separator kind)
fn exec_spellprep(a: &[u64]) -> Result<Outcome, String> {
    use text_utils::data::preprocessing::{preprocessing, Part, PreprocessingFnConfig, SpellingCorruptionMode};
    use text_utils::data::{TextDataInfo, TrainData};
    let mut r = Rd::new(a);
    let seed = r.nat()?;
    let char_p = r.nat()? as f64 / 1000.0;
    let full_delete = r.bool()?;
    let text = r.string()?;
    let entries: Vec<(String, String, String, u64, u64)> = r.list(|r| Ok((r.string()?, r.string()?, r.string()?, r.nat()?, r.nat()?)))?;
    r.end()?;
    if text.split_whitespace().collect::<Vec<_>>().join(" ") != text {
        return Err("text is not whitespace-clean".into());
    }
    let mut keys = HashSet::new();
    let mut file = String::new();
    for (a, b, c, f, sep) in &entries {
        if [a, b, c].iter().any(|x| x.is_empty() || x.chars().any(char::is_whitespace)) || *f == 0 {
            return Err("bad 3-gram entry".into());
        }
        let key = match sep {
            0 => format!("{a} {b} {c}"),
            1 => format!("{a}  {b} {c}"),
            2 => format!("{a} {b}\u{3000}{c}"),
            _ => return Err("bad separator kind".into()),
        };
        if !keys.insert(key.clone()) {
            return Err("duplicate key".into());
        }
        file.push_str(&format!("{key}\t{f}\n"));
    }
    let path = format!("{}/chars-{}.tsv", tmp(), std::process::id());
    std::fs::write(&path, file).map_err(|e| e.to_string())?;
    let f = preprocessing(PreprocessingFnConfig::SpellingCorruption(Part::Input, 1.0, full_delete, SpellingCorruptionMode::Artificial(char_p, 2.0, Some(path.into()))));
    let mut o = Outcome::new("terminates".to_string());
    // several random streams per request (a faulty table entry must also be drawn)
    for k in 0..24u64 {
        let info = TextDataInfo { seed: seed.wrapping_add(k), file_idx: 0, marks: Default::default() };
        let (item, _) = f(TrainData::new(text.clone(), None), info.clone()).map_err(|e| e.to_string())?;
        let (item2, _) = f(TrainData::new(text.clone(), None), info).map_err(|e| e.to_string())?;
        o.check(item.verif_target() == text, "target was modified");
        o.check(item.verif_input() == item2.verif_input(), "not a deterministic function of (text, seed)");
        let out = item.verif_input();
        o.check(out.split_whitespace().collect::<Vec<_>>().join(" ") == out, "corrupted text is not whitespace-clean");
        if !full_delete {
            o.check(out.split_whitespace().count() == text.split_whitespace().count(), "a word disappeared or was split although words cannot be deleted completely");
        }
    }
    Ok(o)
}

pub fn exec(op: &str, a: &[u64]) -> Result<Outcome, String> {
    if op == "spellprep" {
        return exec_spellprep(a);
    }
    if op != "editword" {
        return Err(format!("unknown op {op}"));
    }
    // the request records the observed result; the seed (< 64) is recovered by search, so the model part of the
    // request stays free of anything the model does not use
    let mut r = Rd::new(a);
    let g = r.bool()?;
    let wt = r.text()?;
    let word = text_to_string(&wt)?;
    if clusters(&word, g) != wt {
        return Err("segmentation differs from request".into());
    }
    let excl: Vec<usize> = r.nats()?.into_iter().map(|x| x as usize).collect();
    let ins = r.opt(|r| r.list(|r| Ok(((rd_cl(r)?, rd_cl(r)?), rd_edits(r, g)?))))?;
    let del = r.opt(|r| r.bool())?;
    let rep = r.opt(|r| r.list(|r| Ok(((rd_cl(r)?, rd_cl(r)?, rd_cl(r)?), rd_edits(r, g)?))))?;
    let swap = r.bool()?;
    let frozen = rd_cl(&mut r)?;
    if frozen != FROZEN {
        return Err("frozen character differs from the harness predicate".into());
    }
    let rw_t = r.text()?;
    let rexcl: Vec<usize> = r.nats()?.into_iter().map(|x| x as usize).collect();
    r.end()?;
    let cfg = Cfg { ins, del, rep, swap };
    // find a seed that reproduces the recorded observation (the generator used a seed < 64)
    let want_w = text_to_string(&rw_t)?;
    let mut found = None;
    for seed in 0..64u64 {
        let (w, e) = run(&word, g, seed, &cfg, &excl);
        if w == want_w && e == rexcl {
            found = Some((w, e));
            break;
        }
    }
    let Some((w, e)) = found else {
        return Err("no seed < 64 reproduces the recorded result".into());
    };
    let mut o = Outcome::new("accept".to_string());
    // C15 oracle on the implementation's result
    let n_new = clusters(&w, g).len();
    let rw_real = clusters(&w, g);
    if rw_real != rw_t {
        o.check(false, "result segmentation differs from the recorded one");
        return Ok(o);
    }
    // F16: in grapheme mode an inserted / replacing string can fuse with a neighbouring character when the edited
    // word is segmented again: the result then contains a cluster that is neither a character of the word nor of
    // any edit string, and positions (hence the returned exclusion set) no longer refer to the same characters
    if g && fused(&word, &cfg, &w) {
        o.check(false, "F16 edited word re-segments differently (an edit string fuses with a neighbouring character into a new grapheme cluster)");
        return Ok(o);
    }
    o.check(e.iter().all(|&i| i < n_new), "returned exclusion index outside the new word");
    // protected characters are preserved at their re-mapped positions
    let old = clusters(&word, g);
    let delta = n_new as i64 - old.len() as i64;
    if w != word {
        // position of the edit: first difference
        let p = old.iter().zip(rw_real.iter()).take_while(|(x, y)| x == y).count();
        for &i in &excl {
            if i >= old.len() {
                continue;
            }
            let j = if i < p { i as i64 } else { i as i64 + delta };
            let ok = j >= 0 && (j as usize) < rw_real.len() && rw_real[j as usize] == old[i];
            // a swap keeps the length: excluded positions are untouched
            o.check(ok || (delta == 0 && rw_real.get(i) == old.get(i)), "character at an excluded position was altered");
        }
        let old_len = old.len() as i64;
        o.check((n_new as i64 - old_len).abs() <= 8, "more than one bounded edit");
        // the returned set contains the old set re-indexed for the length change.  The edit replaced some span
        // old[p'..len-s') (at most two characters: a swap) by a span of the new word; with repeated characters
        // several (p', s') explain the same pair of words, so the clause is demanded existentially: for SOME
        // explanation every protected position lies in the untouched prefix (index kept) or suffix (index moved by
        // the length difference) and is in the returned set.
        let pmax = p.min(old.len()).min(rw_real.len());
        let qmax = old.iter().rev().zip(rw_real.iter().rev()).take_while(|(x, y)| x == y).count();
        let mut explained = false;
        'outer: for pp in 0..=pmax {
            for ss in 0..=qmax {
                if pp + ss > old.len() || pp + ss > rw_real.len() || old.len() - pp - ss > 2 {
                    continue;
                }
                let ok = excl.iter().filter(|&&i| i < old.len()).all(|&i| {
                    if i < pp {
                        e.contains(&i)
                    } else if i >= old.len() - ss {
                        let j = i as i64 + delta;
                        j >= 0 && e.contains(&(j as usize))
                    } else {
                        false
                    }
                });
                if ok {
                    explained = true;
                    break 'outer;
                }
            }
        }
        o.check(explained, "returned exclusion set is not the old set re-indexed for the length change (a protected position was lost, not shifted, or edited)");
        // characters at excluded positions are never altered OR USED in an edit: some ENABLED edit kind explains the
        // result without touching a protected position — an insertion into a gap whose two neighbours are unprotected
        // (they are the context of the insertion), a deletion / replacement of an unprotected character, a swap of two
        // unprotected characters
        let prot = |i: usize| excl.contains(&i);
        let mut legal = false;
        for pp in 0..=pmax {
            for ss in 0..=qmax {
                if pp + ss > old.len() || pp + ss > rw_real.len() {
                    continue;
                }
                let removed = old.len() - pp - ss;
                let added = rw_real.len() - pp - ss;
                let ok = match removed {
                    0 => added > 0 && cfg.ins.is_some() && !(pp > 0 && prot(pp - 1)) && !(pp < old.len() && prot(pp)),
                    1 => !prot(pp) && ((added == 0 && cfg.del.is_some()) || cfg.rep.is_some()),
                    2 => added == 2 && cfg.swap && !prot(pp) && !prot(pp + 1) && rw_real[pp] == old[pp + 1] && rw_real[pp + 1] == old[pp],
                    _ => false,
                };
                legal |= ok;
            }
        }
        o.check(legal, "no enabled edit kind explains the result without altering a protected character or using it as the context of an insertion");
    } else {
        let mut ex = excl.clone();
        ex.sort();
        ex.dedup();
        // an edit may reproduce the same word (replacement by the same string): the old exclusions must survive
        o.check(ex.iter().all(|i| e.contains(i)), "word unchanged but an excluded position was dropped");
    }
    Ok(o)
}

fn enc_cl(v: &mut Vec<u64>, s: &str) {
    enc_str(v, s);
}

fn enc_edits(v: &mut Vec<u64>, es: &[String], g: bool) {
    v.push(es.len() as u64);
    for e in es {
        v.extend(enc_text(e, g));
    }
}

fn emit(ctx: &mut Ctx, word: &str, g: bool, cfg: &Cfg, excl: &[usize], seed: u64) -> Option<(String, Vec<usize>)> {
    let res = std::panic::catch_unwind(std::panic::AssertUnwindSafe(|| run(word, g, seed, cfg, excl)));
    let mut v = vec![g as u64];
    v.extend(enc_text(word, g));
    enc_nats(&mut v, excl.iter().map(|&x| x as u64));
    match &cfg.ins {
        Some(t) => {
            v.push(1);
            v.push(t.len() as u64);
            for ((a, b), es) in t {
                enc_cl(&mut v, a);
                enc_cl(&mut v, b);
                enc_edits(&mut v, es, g);
            }
        }
        None => v.push(0),
    }
    match cfg.del {
        Some(f) => v.extend([1, f as u64]),
        None => v.push(0),
    }
    match &cfg.rep {
        Some(t) => {
            v.push(1);
            v.push(t.len() as u64);
            for ((a, b, c), es) in t {
                enc_cl(&mut v, a);
                enc_cl(&mut v, b);
                enc_cl(&mut v, c);
                enc_edits(&mut v, es, g);
            }
        }
        None => v.push(0),
    }
    v.push(cfg.swap as u64);
    enc_cl(&mut v, FROZEN);
    match res {
        Ok((w, e)) => {
            v.extend(enc_text(&w, g));
            enc_nats(&mut v, e.iter().map(|&x| x as u64));
            ctx.case("editword", &v);
            Some((w, e))
        }
        Err(_) => {
            // the implementation panicked: record a request whose observation part is empty; exec will hit the
            // same panic under catch_unwind and report it
            v.extend(enc_text(word, g));
            enc_nats(&mut v, excl.iter().map(|&x| x as u64));
            ctx.case("editword", &v);
            None
        }
    }
}

const CHARS: &[&str] = &["a", "b", "z", "\u{e4}", "c"];

fn rand_word(ctx: &mut Ctx) -> String {
    let n = [0usize, 1, 1, 2, 3, 4, 5][ctx.rng.random_range(0..7)];
    (0..n).map(|_| CHARS[ctx.rng.random_range(0..CHARS.len())]).collect()
}

fn rand_ctx_char(ctx: &mut Ctx, bow: bool, eow: bool) -> String {
    let r = ctx.rng.random_range(0..10);
    if r == 0 && bow {
        "<bow>".into()
    } else if r == 1 && eow {
        "<eow>".into()
    } else {
        CHARS[ctx.rng.random_range(0..CHARS.len())].into()
    }
}

fn rand_edits(ctx: &mut Ctx, allow_empty: bool) -> Vec<String> {
    let n = ctx.rng.random_range(1..=3);
    (0..n)
        .map(|_| match ctx.rng.random_range(0..8) {
            0 if allow_empty => String::new(),
            1 => "xy".into(),
            2 => "\u{4e2d}".into(),
            3 => "a\u{e4}c".into(),
            // strings whose number of code points differs from their number of grapheme clusters (a base letter
            // with a mark that has no precomposed form): the two unit modes count them differently
            5 if ctx.rng.random_range(0..2) == 0 => ["e\u{301}", "x\u{30c}y\u{30c}", "b\u{301}\u{302}"][ctx.rng.random_range(0..3)].into(),
            // a combining mark: in grapheme mode it fuses with the character before it (F16)
            4 if ctx.rng.random_range(0..4) == 0 => "\u{301}".into(),
            _ => CHARS[ctx.rng.random_range(0..CHARS.len())].into(),
        })
        .collect()
}

pub fn run_c15(ctx: &mut Ctx) {
    // the preprocessing step with tables built from a characters file
    let np = ctx.budget(60, 3000);
    for _ in 0..np {
        let letters = ["a", "b", "c", "x", "\u{e4}", "<bow>", "<eow>"];
        let mut entries: Vec<(String, String, String, u64, u64)> = vec![];
        for _ in 0..ctx.rng.random_range(1..=14) {
            let pick = |ctx: &mut Ctx, lo: usize, hi: usize| letters[ctx.rng.random_range(lo..hi)].to_string();
            let e = (pick(ctx, 0, 6), pick(ctx, 0, 5), { let x = pick(ctx, 0, 7); if x == "<bow>" { "c".to_string() } else { x } }, ctx.rng.random_range(1..=90u64), [0u64, 0, 0, 1, 2][ctx.rng.random_range(0..5)]);
            if !entries.iter().any(|o| (&o.0, &o.1, &o.2, o.4) == (&e.0, &e.1, &e.2, e.4)) {
                entries.push(e);
            }
        }
        // the same 3-gram under another spelling of its separators (a second key for the same context and character)
        for k in 0..entries.len() {
            if ctx.rng.random_bool(0.4) {
                let mut e = entries[k].clone();
                e.4 = (e.4 + 1 + ctx.rng.random_range(0..2u64)) % 3;
                e.3 = ctx.rng.random_range(1..=90u64);
                if !entries.iter().any(|o| (&o.0, &o.1, &o.2, o.4) == (&e.0, &e.1, &e.2, e.4)) {
                    entries.push(e);
                }
            }
        }
        // words that contain the contexts of the table
        let text: String = (0..ctx.rng.random_range(1..=4))
            .map(|_| {
                let e = &entries[ctx.rng.random_range(0..entries.len())];
                let part = |x: &String| if x.starts_with('<') { String::new() } else { x.clone() };
                let w = format!("{}{}{}", part(&e.0), part(&e.1), part(&e.2));
                if ctx.rng.random_bool(0.5) { w } else { format!("{w}{}", ["a", "b", "x"][ctx.rng.random_range(0..3)]) }
            })
            .collect::<Vec<_>>()
            .join(" ");
        let mut v = vec![crate::gen::seed(&mut ctx.rng), [0u64, 200, 1000][ctx.rng.random_range(0..3)], ctx.rng.random_bool(0.5) as u64];
        enc_str(&mut v, &text);
        v.push(entries.len() as u64);
        for (a, b, c, f, sep) in &entries {
            enc_str(&mut v, a);
            enc_str(&mut v, b);
            enc_str(&mut v, c);
            v.extend([*f, *sep]);
        }
        ctx.case("spellprep", &v);
    }
    let n = ctx.budget(1500, 60000);
    for i in 0..n {
        let g = ctx.rng.random_bool(0.5);
        let word = rand_word(ctx);
        let nchars = clusters(&word, g).len();
        let kinds: u32 = ctx.rng.random_range(0..16);
        // dense context tables: every context of the small alphabet has a high chance to be present
        let ins: Option<InsTbl> = if kinds & 1 != 0 {
            let mut t: InsTbl = vec![];
            for _ in 0..ctx.rng.random_range(0..=12) {
                let k = (rand_ctx_char(ctx, true, false), rand_ctx_char(ctx, false, true));
                if !t.iter().any(|e| e.0 == k) {
                    let es = rand_edits(ctx, i % 5 == 0);
                    t.push((k, es));
                }
            }
            Some(t)
        } else {
            None
        };
        let rep: Option<RepTbl> = if kinds & 4 != 0 {
            let mut t: RepTbl = vec![];
            for _ in 0..ctx.rng.random_range(0..=20) {
                let k = (rand_ctx_char(ctx, true, false), rand_ctx_char(ctx, false, false), rand_ctx_char(ctx, false, true));
                if !t.iter().any(|e| e.0 == k) {
                    let es = rand_edits(ctx, true);
                    t.push((k, es));
                }
            }
            Some(t)
        } else {
            None
        };
        let cfg = Cfg { ins, del: if kinds & 2 != 0 { Some(ctx.rng.random_bool(0.5)) } else { None }, rep, swap: kinds & 8 != 0 };
        let mut excl: Vec<usize> = (0..nchars).filter(|_| ctx.rng.random_bool(0.25)).collect();
        // chains of repeated edits with the returned exclusion set, as corrupt_spelling does
        let chain = ctx.rng.random_range(1..=4);
        let mut w = word.clone();
        for _ in 0..chain {
            let seed = ctx.rng.random_range(0..64);
            match emit(ctx, &w, g, &cfg, &excl, seed) {
                Some((w2, e2)) => {
                    // stop a chain whose result re-segments differently (F16)
                    if g && fused(&w, &cfg, &w2) {
                        break;
                    }
                    w = w2;
                    excl = e2;
                }
                None => break,
            }
        }
    }
}
