//! C12 — edit distance, prefix distance, operations
use crate::ctx::{Ctx, Outcome};
use crate::gen;
use crate::wire::*;
use rand::Rng;
use text_utils::edit::{distance, operations, prefix_distance, EditOperation};

type Cl = Vec<u64>;

fn ws(c: &Cl) -> bool {
    c.iter().all(|&u| char::from_u32(u as u32).map(|c| c.is_whitespace()).unwrap_or(false))
}

/// independent reference DP (Levenshtein / optimal string alignment / whitespace restrictions),
/// written from the property text, not from the code or the model
pub fn ref_distance(a: &[Cl], b: &[Cl], swap: bool, sid: bool) -> usize {
    let (n, m) = (a.len(), b.len());
    let inf = usize::MAX / 2;
    let mut d = vec![vec![inf; m + 1]; n + 1];
    for i in 0..=n {
        for j in 0..=m {
            let mut best = inf;
            if i == 0 && j == 0 {
                best = 0;
            }
            if i > 0 {
                best = best.min(d[i - 1][j] + 1);
            }
            if j > 0 {
                best = best.min(d[i][j - 1] + 1);
            }
            if i > 0 && j > 0 {
                if a[i - 1] == b[j - 1] {
                    best = best.min(d[i - 1][j - 1]);
                } else if !sid || (!ws(&a[i - 1]) && !ws(&b[j - 1])) {
                    best = best.min(d[i - 1][j - 1] + 1);
                }
            }
            if swap && i > 1 && j > 1 && a[i - 1] == b[j - 2] && a[i - 2] == b[j - 1] {
                if !sid || (!ws(&a[i - 1]) && !ws(&a[i - 2])) {
                    best = best.min(d[i - 2][j - 2] + 1);
                }
            }
            d[i][j] = best;
        }
    }
    d[n][m]
}

fn apply_script(a: &[Cl], b: &[Cl], ops: &[(EditOperation, usize, usize)]) -> Option<Vec<Cl>> {
    let mut out = vec![];
    let mut pa = 0usize;
    for (k, i, j) in ops {
        if *i < pa || *i > a.len() {
            return None;
        }
        out.extend_from_slice(&a[pa..*i]);
        pa = *i;
        match k {
            EditOperation::Insert => out.push(b.get(*j)?.clone()),
            EditOperation::Delete => {
                a.get(*i)?;
                pa += 1
            }
            EditOperation::Replace => {
                a.get(*i)?;
                out.push(b.get(*j)?.clone());
                pa += 1
            }
            EditOperation::Swap => {
                out.push(a.get(*i + 1)?.clone());
                out.push(a.get(*i)?.clone());
                pa += 2
            }
        }
    }
    out.extend_from_slice(&a[pa..]);
    Some(out)
}

fn args(r: &mut Rd) -> R<(bool, bool, bool, bool, String, String, Vec<Cl>, Vec<Cl>)> {
    let g = r.bool()?;
    let sw = r.bool()?;
    let sid = r.bool()?;
    let norm = r.bool()?;
    let at = r.text()?;
    let bt = r.text()?;
    let a = text_to_string(&at)?;
    let b = text_to_string(&bt)?;
    if clusters(&a, g) != at || clusters(&b, g) != bt {
        return Err("segmentation differs from request".into());
    }
    Ok((g, sw, sid, norm, a, b, at, bt))
}

fn fl(x: f64) -> String {
    if x.is_nan() {
        "ok f:nan".into()
    } else {
        format!("ok f:{x:e}")
    }
}

pub fn exec(op: &str, a: &[u64]) -> Result<Outcome, String> {
    let mut r = Rd::new(a);
    let (g, sw, sid, norm, sa, sb, ca, cb) = args(&mut r)?;
    if op == "eops" {
        // the recorded script (three numbers per operation) is for the model
        let _recorded = r.list(|r| Ok((r.nat()?, r.nat()?, r.nat()?)))?;
    }
    r.end()?;
    match op {
        "dist" => {
            let d = distance(&sa, &sb, g, sw, sid, norm);
            let want = ref_distance(&ca, &cb, sw, sid);
            if !norm {
                let mut o = Outcome::new(if d.fract() == 0.0 && d >= 0.0 { ok([d as u64]) } else { fl(d) });
                o.check(d == want as f64, "distance != reference dynamic programme");
                o.check((d == 0.0) == (ca == cb), "distance 0 iff equal");
                Ok(o)
            } else {
                let mut o = Outcome::new(fl(d));
                o.check(d.is_finite(), "normalised distance is not finite (NaN)");
                let longer = ca.len().max(cb.len());
                if longer > 0 {
                    o.check((d - want as f64 / longer as f64).abs() < 1e-12, "normalised distance != reference / longer length");
                }
                if ca == cb {
                    o.check(d == 0.0, "normalised distance of equal strings is not 0");
                }
                if d.is_finite() && !(0.0..=1.0).contains(&d) {
                    if sid {
                        o.check(false, "F12 normalised distance exceeds 1 under spaces_insert_delete_only");
                    } else {
                        o.check(false, "normalised distance outside [0,1]");
                    }
                }
                Ok(o)
            }
        }
        "pdist" => {
            let d = prefix_distance(&sa, &sb, g, sw, sid, norm);
            let mut o = Outcome::new(if !norm && d.fract() == 0.0 && d >= 0.0 { ok([d as u64]) } else { fl(d) });
            if !norm {
                let want = (0..=cb.len()).map(|k| ref_distance(&ca, &cb[..k], sw, sid)).min().unwrap();
                o.check(d == want as f64, "prefix_distance != minimum over all prefixes of b");
            }
            Ok(o)
        }
        "eops" => {
            // the request also carries the script observed by the generating run (judged by the model: any optimal,
            // sorted, flag-respecting script is an admissible answer); this run's script is judged by the oracle
            let ops = operations(&sa, &sb, g, sw, sid);
            let mut o = Outcome::new("accept".to_string());
            let want = ref_distance(&ca, &cb, sw, sid);
            o.check(ops.len() == want, "script length != unnormalised distance");
            o.check(ops.windows(2).all(|w| (w[0].1, w[0].2) <= (w[1].1, w[1].2)), "script not sorted by position");
            o.check(apply_script(&ca, &cb, &ops).as_ref() == Some(&cb), "applying the script to a does not yield b");
            for (k, i, j) in &ops {
                if sid {
                    match k {
                        EditOperation::Replace => o.check(!ws(&ca[*i]) && !ws(&cb[*j]), "whitespace substituted under spaces_insert_delete_only"),
                        EditOperation::Swap => o.check(!ws(&ca[*i]) && !ws(&ca[*i + 1]), "whitespace transposed under spaces_insert_delete_only"),
                        _ => {}
                    }
                }
                if !sw {
                    o.check(*k != EditOperation::Swap, "swap used although with_swap is off");
                }
            }
            Ok(o)
        }
        _ => Err(format!("unknown op {op}")),
    }
}

fn req(g: bool, sw: bool, sid: bool, norm: bool, a: &str, b: &str) -> Vec<u64> {
    let mut v = vec![g as u64, sw as u64, sid as u64, norm as u64];
    v.extend(enc_text(a, g));
    v.extend(enc_text(b, g));
    v
}

fn small_str(ctx: &mut Ctx, max: usize) -> String {
    // two different whitespace characters: substitution between kinds of whitespace must stay forbidden under
    // spaces_insert_delete_only
    let alpha = ['a', 'b', ' ', '\u{e4}', '\t'];
    let n = ctx.rng.random_range(0..=max);
    let mut s = String::new();
    for _ in 0..n {
        let r = ctx.rng.random_range(0..100);
        if r < 92 {
            s.push(alpha[ctx.rng.random_range(0..if r < 10 { 5 } else { 4 })]);
        } else if r < 95 {
            s.push('\u{301}');
        } else if r < 97 {
            // one cluster of two ASCII bytes in grapheme mode
            s.push_str("\r\n");
        } else {
            s.push(gen::pick(&mut ctx.rng, gen::LETTERS));
        }
    }
    s
}

/// mutate a into a near neighbour so that keeps / transpositions are dense
fn mutate(ctx: &mut Ctx, a: &str) -> String {
    let mut cs: Vec<char> = a.chars().collect();
    let k = ctx.rng.random_range(0..=3);
    for _ in 0..k {
        let alpha = ['a', 'b', ' ', '\u{e4}', '\t', '\u{3000}'];
        match ctx.rng.random_range(0..4) {
            0 if !cs.is_empty() => {
                let i = ctx.rng.random_range(0..cs.len());
                cs.remove(i);
            }
            1 => {
                let i = ctx.rng.random_range(0..=cs.len());
                cs.insert(i, alpha[ctx.rng.random_range(0..6)]);
            }
            2 if cs.len() >= 2 => {
                let i = ctx.rng.random_range(0..cs.len() - 1);
                cs.swap(i, i + 1);
            }
            _ if !cs.is_empty() => {
                let i = ctx.rng.random_range(0..cs.len());
                cs[i] = alpha[ctx.rng.random_range(0..6)];
            }
            _ => {}
        }
    }
    cs.into_iter().collect()
}

pub fn run_c12(ctx: &mut Ctx) {
    let corpus: [(&str, &str); 10] = [
        ("", ""), ("", "a"), ("a", ""), (" ", "x"), ("ab", "ba"), ("this is a test", "tihsi s a test"),
        ("a b", "ab"), ("ab", "a b"), ("abc", "cab"), ("a\u{301}b", "ab"),
    ];
    let corpus3: [(&str, &str); 3] = [("a\r\nb", "a\nb"), ("a\r\nb", "ab"), ("\r\n", "\n\r")];
    let corpus2: [(&str, &str); 4] = [("a b", "a\tb"), (" ", "\t"), ("a\u{3000}b c", "a b\tc"), ("\t a", " \ta")];
    let all_flags = |ctx: &mut Ctx, a: &str, b: &str, gs: &[bool]| {
        for &g in gs {
            for sw in [false, true] {
                for sid in [false, true] {
                    for norm in [false, true] {
                        ctx.case("dist", &req(g, sw, sid, norm, a, b));
                        ctx.case("pdist", &req(g, sw, sid, norm, a, b));
                    }
                    let mut v = req(g, sw, sid, false, a, b);
                    let ops = std::panic::catch_unwind(|| operations(a, b, g, sw, sid)).unwrap_or_default();
                    v.push(ops.len() as u64);
                    for (k, i, j) in &ops {
                        v.push(match k {
                            EditOperation::Insert => 0,
                            EditOperation::Delete => 1,
                            EditOperation::Replace => 2,
                            EditOperation::Swap => 3,
                        });
                        v.push(*i as u64);
                        v.push(*j as u64);
                    }
                    ctx.case("eops", &v);
                }
            }
        }
    };
    if ctx.first_shard() {
        for (a, b) in corpus {
            all_flags(ctx, a, b, &[false, true]);
        }
        for (a, b) in corpus2 {
            all_flags(ctx, a, b, &[false, true]);
        }
        for (a, b) in corpus3 {
            all_flags(ctx, a, b, &[false, true]);
        }
    }
    if ctx.thorough && ctx.first_shard() {
        // exhaustive: all pairs of strings of length ≤ 4 over {a,b,space} (code-point mode), all flags
        let all = gen::all_strings(&['a', 'b', ' '], 4);
        for a in &all {
            for b in &all {
                all_flags(ctx, a, b, &[false]);
            }
        }
        // two kinds of whitespace: all pairs of strings of length ≤ 3 over {a, space, tab}
        let all = gen::all_strings(&['a', ' ', '\t'], 3);
        for a in &all {
            for b in &all {
                all_flags(ctx, a, b, &[false]);
            }
        }
    }
    if ctx.first_shard() {
        // one long pair (more than 2^20 matrix cells: another algorithm, a bounded table, rolling rows would show
        // here): a text over {a, b, x, blank} and a copy in which some letters became blanks and some blanks letters
        let n = 1030 + ctx.rng.random_range(0..20);
        let a: String = (0..n).map(|i| if i % 11 == 5 { 'x' } else if i % 7 == 3 { ' ' } else if i % 2 == 0 { 'a' } else { 'b' }).collect();
        let b: String = a.chars().enumerate().map(|(i, c)| if c == 'x' && i % 3 != 0 { ' ' } else if c == ' ' && i % 5 == 0 { 'b' } else { c }).collect::<String>() + "ab";
        ctx.case("dist", &req(false, false, false, false, &a, &b));
        ctx.case("dist", &req(false, false, true, true, &a, &b));
        ctx.case("dist", &req(false, true, true, false, &a, &b));
    }
    let n = ctx.budget(600, 40000);
    for i in 0..n {
        let a = small_str(ctx, if i % 200 == 17 { 150 } else if i % 10 == 0 { 14 } else { 6 });
        let b = if i % 3 == 0 { small_str(ctx, 6) } else { mutate(ctx, &a) };
        let g = ctx.rng.random_bool(0.3);
        all_flags(ctx, &a, &b, &[g]);
    }
}
