//! C16 — inference windows
use crate::ctx::{Ctx, Outcome};
use crate::gen;
use crate::wire::*;
use rand::Rng;
use text_utils::unicode::CharString;
use text_utils::windows::{windows, WindowConfig};

// request: kind max ctx <lens>  — the model only needs the cluster byte lengths; the harness rebuilds a
// concrete string with exactly these cluster lengths from an extra trailing part: g + the text.
// layout: windows kind max ctx n l1..ln | g text   (the model ignores nothing: g/text travel in a
// second op "windows" argument list?  -> keep it simple: the string is reconstructed from lens)

/// a concrete string whose clusters have exactly the byte lengths `lens`; `var` selects, per cluster, among
/// several realisations (the model sees the lengths only): plain characters, white space and line separators,
/// CR LF (one cluster of two ASCII bytes in grapheme mode), base + combining marks, regional-indicator pairs,
/// ZWJ sequences.  Returns the string and whether grapheme mode is required / forbidden.
fn string_of_lens(lens: &[u64], var: u64) -> Result<(String, Option<bool>), String> {
    let mut s = String::new();
    let mut need_g = false;
    for (i, &l) in lens.iter().enumerate() {
        let sel = if var == 0 { 0 } else { (var >> ((2 * i) % 60)) & 3 };
        // a mark / second regional indicator would fuse with what precedes it: realisations that start with a
        // base character only
        match (l, sel) {
            (0, _) => return Err("zero-length cluster".into()),
            (1, 1) => s.push(' '),
            (1, 2) => s.push('\n'),
            (1, _) => s.push('a'),
            (2, 1) => {
                need_g = true;
                s.push_str("\r\n")
            }
            (2, _) => s.push('\u{e4}'),
            (3, 1) => s.push('\u{2028}'),
            (3, 2) => {
                need_g = true;
                s.push_str("a\u{301}")
            }
            (3, _) => s.push('\u{4e2d}'),
            (4, 1) => {
                need_g = true;
                s.push_str("\u{e4}\u{301}")
            }
            (4, _) => s.push('\u{1F600}'),
            (8, 1) => {
                need_g = true;
                s.push_str("\u{1F1E9}\u{1F1EA}")
            }
            (11, 1) => {
                need_g = true;
                s.push_str("\u{1F468}\u{200D}\u{1F469}")
            }
            (l, _) => {
                need_g = true;
                // base of 1..2 bytes + k combining acute accents (2 bytes each)
                let base = if l % 2 == 1 { 'a' } else { '\u{e4}' };
                s.push(base);
                let rest = l - base.len_utf8() as u64;
                for _ in 0..rest / 2 {
                    s.push('\u{301}');
                }
            }
        }
    }
    Ok((s, if need_g { Some(true) } else { None }))
}

/// the answer of the generating run: `1 n (8 fields)*` or `0` for an error (a panic is reproduced by the exec side)
fn enc_observation(v: &mut Vec<u64>, kind: u64, max: usize, ctx: usize, var: u64, lens: &[u64]) {
    let Ok((s, needs_g)) = string_of_lens(lens, var) else {
        v.push(0);
        return;
    };
    let g = needs_g.unwrap_or(lens.len().wrapping_add(max) % 2 == 0);
    let cfg = match kind {
        0 => WindowConfig::Character(max, ctx, g),
        1 => WindowConfig::Bytes(max, ctx, g),
        _ => WindowConfig::Full(g),
    };
    match std::panic::catch_unwind(|| windows(&s, &cfg)) {
        Ok(Ok(ws)) => {
            v.push(1);
            v.push(ws.len() as u64);
            for w in &ws {
                let (a, b, c, d) = w.boundaries();
                let (e, f, gg, h) = w.byte_boundaries();
                v.extend([a, b, c, d, e, f, gg, h].map(|x| x as u64));
            }
        }
        _ => v.push(0),
    }
}

pub fn exec(op: &str, a: &[u64]) -> Result<Outcome, String> {
    if op != "windows" {
        return Err(format!("unknown op {op}"));
    }
    let mut r = Rd::new(a);
    let kind = r.nat()?;
    let max = r.usize()?;
    let ctx = r.usize()?;
    let var = r.nat()?;
    let lens = r.nats()?;
    // the observation of the generating run (windows or "error") is for the model: how long the windows are is not
    // fixed by the property; this run's answer is judged by the oracle below
    let _obs = r.opt(|r| r.list(|r| Ok([r.nat()?, r.nat()?, r.nat()?, r.nat()?, r.nat()?, r.nat()?, r.nat()?, r.nat()?])))?;
    r.end()?;
    let (s, needs_g) = string_of_lens(&lens, var)?;
    // both modes give the same clusters when no cluster has more than one code point; use graphemes
    // whenever a multi-code-point cluster is present, otherwise alternate deterministically
    let g = needs_g.unwrap_or(lens.len().wrapping_add(max) % 2 == 0);
    let cs = CharString::new(&s, g);
    let real: Vec<u64> = cs.get_char_byte_lengths().into_iter().map(|x| x as u64).collect();
    if real != lens {
        return Err("string does not realise the requested cluster lengths".into());
    }
    let cfg = match kind {
        0 => WindowConfig::Character(max, ctx, g),
        1 => WindowConfig::Bytes(max, ctx, g),
        2 => WindowConfig::Full(g),
        _ => return Err("bad kind".into()),
    };
    let n = lens.len();
    match windows(&s, &cfg) {
        Ok(ws) => {
            let mut o = Outcome::new("accept".to_string());
            if n > 0 {
                // prefix sums: byte offset of character position k
                let mut pre = vec![0usize];
                for l in &lens {
                    pre.push(pre.last().unwrap() + *l as usize);
                }
                o.check(!ws.is_empty() && ws[0].boundaries().1 == 0, "first window does not start at 0");
                o.check(ws.last().map(|w| w.boundaries().2) == Some(n), "last window does not end at the text length");
                let mut recon = String::new();
                for (i, w) in ws.iter().enumerate() {
                    let (cs_, ws_, we_, ce_) = w.boundaries();
                    let (bcs, bws, bwe, bce) = w.byte_boundaries();
                    o.check(ws_ < we_, "empty window");
                    if i > 0 {
                        o.check(ws_ == ws[i - 1].boundaries().2, "window does not start where the previous ended");
                    }
                    o.check(cs_ <= ws_ && we_ <= ce_ && ce_ <= n, "context does not contain its window");
                    match kind {
                        0 => o.check(ce_ - cs_.min(ce_) <= max, "context exceeds max characters"),
                        1 => o.check(bce - bcs.min(bce) <= max, "context exceeds max bytes"),
                        _ => {}
                    }
                    if ce_ <= n && cs_ <= n && ws_ <= n && we_ <= n {
                        o.check((bcs, bws, bwe, bce) == (pre[cs_], pre[ws_], pre[we_], pre[ce_]), "byte and character boundaries denote different positions");
                    }
                    if bcs <= bce && bce <= s.len() && s.is_char_boundary(bcs) && s.is_char_boundary(bce) {
                        o.check(w.str == &s[bcs..bce], "reported string is not the context slice");
                    } else {
                        o.check(false, "context byte range invalid");
                    }
                    if bws <= bwe && bwe <= s.len() && s.is_char_boundary(bws) && s.is_char_boundary(bwe) {
                        recon.push_str(&s[bws..bwe]);
                    }
                }
                o.check(recon == s, "concatenated window byte ranges do not reproduce the text");
                if kind != 2 {
                    o.check((max as u128) > 2 * ctx as u128, "impossible configuration accepted");
                }
            }
            Ok(o)
        }
        Err(e) => {
            let msg = e.to_string();
            let k = if msg.starts_with("max ") { "bad-config" } else if msg.starts_with("single character") { "too-wide" } else { "other" };
            let _ = k;
            let mut o = Outcome::new("accept".to_string());
            if kind != 2 && (max as u128) > 2 * ctx as u128 && n > 0 {
                // valid configuration: only a character wider than the window may fail (byte windows)
                let wl_first = max - ctx;
                let wl_rest = max - 2 * ctx;
                let too_wide = kind == 1 && lens.iter().enumerate().any(|(i, &l)| l as usize > if i == 0 { wl_first } else { wl_rest.max(0) } || l as usize > wl_first);
                let _ = too_wide;
                o.check(kind == 1 && lens.iter().any(|&l| l as usize > wl_rest), "error on a valid configuration although every character fits");
            }
            Ok(o)
        }
    }
}

pub fn run_c16(ctx: &mut Ctx) {
    let mut emit = |ctx: &mut Ctx, kind: u64, max: u64, c: u64, lens: &[u64]| {
        // realisation of the clusters: the plain one for a third of the requests, a random one otherwise
        let var: u64 = if ctx.rng.random_range(0..3) == 0 { 0 } else { ctx.rng.random() };
        let mut v = vec![kind, max, c, var];
        enc_nats(&mut v, lens.iter().copied());
        enc_observation(&mut v, kind, max as usize, c as usize, var, lens);
        ctx.case("windows", &v);
    };
    if ctx.first_shard() {
        for kind in 0..3 {
            emit(ctx, kind, 5, 1, &[]);
            emit(ctx, kind, 0, 0, &[1]);
            emit(ctx, kind, 2, 1, &[1, 2]);
            emit(ctx, kind, 3, 1, &[4, 4, 4]);
            emit(ctx, kind, 4, 0, &[1, 2, 3, 4, 7, 1]);
        }
        // a wide grapheme cluster as the last character(s) behind a full window (right context counted in bytes)
        emit(ctx, 1, 16, 4, &[1, 1, 1, 1, 1, 1, 1, 1, 1, 1, 1, 1, 8]);
        emit(ctx, 1, 44, 8, &[1, 1, 1, 1, 1, 1, 1, 1, 1, 1, 1, 1, 1, 1, 1, 1, 1, 1, 1, 1, 1, 1, 1, 1, 1, 1, 1, 1, 1, 1, 1, 1, 1, 1, 1, 1, 25, 1]);
        emit(ctx, 1, 20, 5, &[2, 2, 2, 2, 2, 2, 2, 1, 11]);
        // "no limit" and other values at the top of the range (the arithmetic on max and context must not overflow)
        let m = u64::MAX;
        for kind in 0..2 {
            for (max, c) in [(m, 0), (m, 1), (m, 5), (m - 1, 3), (m, m / 2), (m - 1, m / 2), (m, m / 2 + 1), (m / 2, m / 4), (m / 2 + 1, m / 4), (m, m), (7, m), (0, m / 2 + 1), (m / 2, m / 2 + 1)] {
                emit(ctx, kind, max, c, &[1, 2, 3, 4, 1]);
                emit(ctx, kind, max, c, &[2]);
            }
        }
    }
    if ctx.thorough && ctx.first_shard() {
        // exhaustive: all byte-length vectors of length ≤ 6 over {1,2,3,4}, max 0..12, ctx 0..5 (sampled grid), 3 kinds
        let mut vecs: Vec<Vec<u64>> = vec![vec![]];
        let mut frontier: Vec<Vec<u64>> = vec![vec![]];
        for _ in 0..6 {
            let mut next = vec![];
            for v in &frontier {
                for l in 1..=4u64 {
                    let mut t = v.clone();
                    t.push(l);
                    next.push(t);
                }
            }
            vecs.extend(next.iter().cloned());
            frontier = next;
        }
        for lens in &vecs {
            for (max, c) in [(0u64, 0u64), (1, 0), (2, 0), (2, 1), (3, 1), (4, 1), (5, 2), (6, 2), (7, 3), (9, 1), (12, 5)] {
                for kind in 0..2 {
                    emit(ctx, kind, max, c, lens);
                }
            }
            emit(ctx, 2, 0, 0, lens);
        }
    }
    let n = ctx.budget(6000, 300000);
    for i in 0..n {
        let len = ctx.rng.random_range(0..=if i % 300 == 5 { 1200 } else if i % 10 == 0 { 30 } else { 9 });
        let lens: Vec<u64> = (0..len)
            .map(|_| {
                let r = ctx.rng.random_range(0..100);
                if r < 40 { 1 } else if r < 60 { 2 } else if r < 75 { 3 } else if r < 88 { 4 } else if r < 91 { 8 } else if r < 93 { 11 } else if r < 95 { 25 } else { ctx.rng.random_range(5..=9) }
            })
            .collect();
        // mostly small limits; every fifth request larger ones (contexts of several characters, where "how many
        // characters remain" and "how many bytes remain" differ by a lot for wide clusters)
        let (max, c) = if i % 5 == 4 { (ctx.rng.random_range(8..=48), ctx.rng.random_range(0..=14)) } else { (ctx.rng.random_range(0..=12), ctx.rng.random_range(0..=5)) };
        if i % 9 == 5 {
            // a window that is exactly full, followed by a few wide clusters (fewer than ctx / 4 of them, more than
            // ctx bytes): byte windows must count the right context in bytes
            let c = ctx.rng.random_range(4..=12u64);
            let max = 2 * c + ctx.rng.random_range(1..=30u64);
            let mut lens: Vec<u64> = vec![];
            let mut total = 0;
            while total < max - c {
                let l = [1u64, 1, 2, 3][ctx.rng.random_range(0..4)].min(max - c - total);
                lens.push(l);
                total += l;
            }
            for _ in 0..ctx.rng.random_range(1..=(c / 4).max(1)) {
                lens.push([5u64, 7, 8, 11, 25][ctx.rng.random_range(0..5)]);
            }
            let k = ctx.rng.random_range(0..2);
            emit(ctx, k, max, c, &lens);
            continue;
        }
        let kind = ctx.rng.random_range(0..10).min(2) % 3;
        let kind = if i % 10 == 9 { 2 } else { kind % 2 };
        emit(ctx, kind, max, c, &lens);
    }
    let _ = gen::WS;
}
