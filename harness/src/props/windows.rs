//! C16 — inference windows
use crate::ctx::{Ctx, Outcome};
use crate::gen;
use crate::wire::*;
use rand::Rng;
use text_utils::text::{possible_byte_substrings, possible_character_substrings};
use text_utils::unicode::CharString;
use text_utils::windows::{windows, WindowConfig};

// request: kind max ctx <lens>  — the model only needs the cluster byte lengths; the harness rebuilds a
// concrete string with exactly these cluster lengths from an extra trailing part: g + the text.
// layout: windows kind max ctx n l1..ln | g text   (the model ignores nothing: g/text travel in a
// second op "windows" argument list?  -> keep it simple: the string is reconstructed from lens)

/// a concrete string whose clusters have exactly the byte lengths `lens`; `var` selects, per cluster, among
/// several realisations (the model sees the lengths only): plain characters, white space and line separators,
/// CR LF (one cluster of two ASCII bytes in grapheme mode), base + combining marks, regional-indicator pairs,
/// ZWJ sequences.  Returns the string and whether grapheme mode is required / forbidden.
fn string_of_lens(lens: &[u64], var: u64) -> Result<(String, Option<bool>), String> {
    let mut s = String::new();
    let mut need_g = false;
    for (i, &l) in lens.iter().enumerate() {
        let sel = if var == 0 { 0 } else { (var >> ((2 * i) % 60)) & 3 };
        // a mark / second regional indicator would fuse with what precedes it: realisations that start with a
        // base character only
        match (l, sel) {
            (0, _) => return Err("zero-length cluster".into()),
            (1, 1) => s.push(' '),
            (1, 2) => s.push('\n'),
            (1, _) => s.push('a'),
            (2, 1) => {
                need_g = true;
                s.push_str("\r\n")
            }
            // format characters (soft hyphen, byte order mark / zero width no-break space, word joiner): ordinary
            // characters of the text, also as its very first character
            (2, 3) => s.push('\u{ad}'),
            (2, _) => s.push('\u{e4}'),
            (3, 1) => s.push('\u{2028}'),
            (3, 2) => {
                need_g = true;
                s.push_str("a\u{301}")
            }
            (3, 3) => s.push(if i % 2 == 0 { '\u{feff}' } else { '\u{2060}' }),
            (3, _) => s.push('\u{4e2d}'),
            (4, 1) => {
                need_g = true;
                s.push_str("\u{e4}\u{301}")
            }
            (4, _) => s.push('\u{1F600}'),
            (8, 1) => {
                need_g = true;
                s.push_str("\u{1F1E9}\u{1F1EA}")
            }
            (11, 1) => {
                need_g = true;
                s.push_str("\u{1F468}\u{200D}\u{1F469}")
            }
            (l, _) => {
                need_g = true;
                // base of 1..2 bytes + k combining acute accents (2 bytes each)
                let base = if l % 2 == 1 { 'a' } else { '\u{e4}' };
                s.push(base);
                let rest = l - base.len_utf8() as u64;
                for _ in 0..rest / 2 {
                    s.push('\u{301}');
                }
            }
        }
    }
    Ok((s, if need_g { Some(true) } else { None }))
}

/// the answer of the generating run: `1 n (8 fields)*` or `0` for an error (a panic is reproduced by the exec side)
fn enc_observation(v: &mut Vec<u64>, kind: u64, max: usize, ctx: usize, var: u64, lens: &[u64]) {
    let Ok((s, needs_g)) = string_of_lens(lens, var) else {
        v.push(0);
        return;
    };
    let g = needs_g.unwrap_or(lens.len().wrapping_add(max) % 2 == 0);
    let cfg = match kind {
        0 => WindowConfig::Character(max, ctx, g),
        1 => WindowConfig::Bytes(max, ctx, g),
        _ => WindowConfig::Full(g),
    };
    match std::panic::catch_unwind(|| windows(&s, &cfg)) {
        Ok(Ok(ws)) => {
            v.push(1);
            v.push(ws.len() as u64);
            for w in &ws {
                let (a, b, c, d) = w.boundaries();
                let (e, f, gg, h) = w.byte_boundaries();
                v.extend([a, b, c, d, e, f, gg, h].map(|x| x as u64));
            }
        }
        _ => v.push(0),
    }
}

/// the realised string of a request about `CharString` (mode chosen as for `windows`), checked against the lengths
fn realise(lens: &[u64], var: u64, salt: usize) -> Result<(String, bool), String> {
    let (s, needs_g) = string_of_lens(lens, var)?;
    let g = needs_g.unwrap_or(lens.len().wrapping_add(salt) % 2 == 0);
    let real: Vec<u64> = CharString::new(&s, g).get_char_byte_lengths().into_iter().map(|x| x as u64).collect();
    if real != lens {
        return Err("string does not realise the requested cluster lengths".into());
    }
    Ok((s, g))
}

/// byte range of a slice of `s` (`(0, 0)` for the empty slice, which need not point into `s`)
fn range_in(s: &str, sub: &str) -> Option<(usize, usize)> {
    if sub.is_empty() {
        return Some((0, 0));
    }
    let off = (sub.as_ptr() as usize).checked_sub(s.as_ptr() as usize)?;
    if off + sub.len() <= s.len() { Some((off, off + sub.len())) } else { None }
}

/// `cstr`: `CharString::{new, len, get_char_byte_lengths, sub, get}` — the run-length based index conversion
fn exec_cstr(a: &[u64]) -> Result<Outcome, String> {
    let mut r = Rd::new(a);
    let var = r.nat()?;
    let lens = r.nats()?;
    let qs = r.list(|r| Ok((r.usize()?, r.usize()?)))?;
    r.end()?;
    let (s, g) = realise(&lens, var, 0)?;
    let cs = CharString::new(&s, g);
    let n = lens.len();
    let mut pre = vec![0usize];
    for l in &lens {
        pre.push(pre.last().unwrap() + *l as usize);
    }
    let mut out: Vec<u64> = vec![cs.len() as u64];
    enc_nats(&mut out, cs.get_char_byte_lengths().into_iter().map(|x| x as u64));
    let mut o = Outcome::new(String::new());
    o.check(cs.len() == n && cs.is_empty() == (n == 0), "len() is not the number of characters");
    o.check(cs.chars().map(|c| c.str.to_string()).collect::<String>() == s, "chars() do not concatenate to the string");
    o.check(CharString::split(&s, g).map(|x| x.len() as u64).collect::<Vec<_>>() == lens, "split() gives other characters than new()");
    for &(st, en) in &qs {
        match std::panic::catch_unwind(|| cs.sub(st, en)) {
            Ok(sub) => match range_in(&s, sub) {
                Some((b, e)) => {
                    out.extend([1, b as u64, e as u64]);
                    o.check(st <= en, "sub(start > end) did not fail");
                    if st <= en {
                        let (cs_, ce_) = (st.min(n), en.min(n));
                        o.check(sub == &s[pre[cs_]..pre[ce_]], "sub(start, end) is not the slice between the two character boundaries");
                    }
                }
                None => return Err("sub() returned a slice outside the string".into()),
            },
            Err(_) => {
                out.push(0);
                o.check(st > en, "sub(start <= end) panicked");
            }
        }
        match std::panic::catch_unwind(|| cs.get(st)) {
            Ok(Some(c)) => {
                let Some((b, e)) = range_in(&s, c) else { return Err("get() returned a slice outside the string".into()) };
                out.extend([1, b as u64, e as u64]);
                o.check(st < n && (b, e) == (pre[st], pre[st + 1]), "get(n) is not the n-th character");
            }
            Ok(None) => {
                out.push(0);
                o.check(st >= n, "get(n) is None for a position inside the text");
            }
            Err(_) => {
                out.push(2);
                o.check(false, "get(n) panicked");
            }
        }
    }
    o.out = ok(out);
    Ok(o)
}

/// `charsubs` / `bytesubs`: `possible_character_substrings` / `possible_byte_substrings` (same index arithmetic as
/// the windows: triples of start byte, end byte, number of characters)
fn exec_subs(op: &str, a: &[u64]) -> Result<Outcome, String> {
    let mut r = Rd::new(a);
    let var = r.nat()?;
    let max = r.usize()?;
    let lens = r.nats()?;
    r.end()?;
    let (s, g) = realise(&lens, var, max)?;
    let n = lens.len();
    let mut pre = vec![0usize];
    for l in &lens {
        pre.push(pre.last().unwrap() + *l as usize);
    }
    let bytes = op == "bytesubs";
    let res = std::panic::catch_unwind(|| if bytes { possible_byte_substrings(&s, max, g) } else { possible_character_substrings(&s, max, g) });
    let Ok(v) = res else {
        // the only panic the code has on this path: `max_chars == 0` on a non-empty text trips the assertion of
        // `char_range_to_byte_range` (no clause of the property speaks about this function's configuration errors;
        // any OTHER panic is reported)
        let mut o = Outcome::new(err("panic"));
        o.check(!bytes && max == 0 && n > 0, "the substring enumeration panicked");
        return Ok(o);
    };
    let mut out = vec![v.len() as u64];
    for &(b, e, k) in &v {
        out.extend([b as u64, e as u64, k as u64]);
    }
    let mut o = Outcome::new(ok(out));
    if n == 0 {
        o.check(v == vec![(0, 0, 0)], "the empty text has other substrings than the empty one");
        return Ok(o);
    }
    // byte and character boundaries denote the same positions: every triple is a run of `k` whole characters
    let mut last: Option<(usize, usize)> = None;
    for &(b, e, k) in &v {
        let st = pre.binary_search(&b);
        let en = pre.binary_search(&e);
        match (st, en) {
            (Ok(st), Ok(en)) => {
                o.check(st < en && en - st == k, "the character count of a substring is not the number of its characters");
                if bytes {
                    o.check(e - b <= max, "a byte substring exceeds the maximum");
                    o.check(en == n || pre[en + 1] - b > max, "a byte substring could be extended by the next character");
                } else {
                    o.check(k == max.min(n), "a character substring does not have min(max, len) characters");
                }
                if let Some((ps, pe)) = last {
                    o.check(ps < st && pe < en, "substrings are not enumerated in increasing order");
                }
                last = Some((st, en));
            }
            _ => o.check(false, "a substring boundary is not a character boundary"),
        }
    }
    if bytes {
        o.check(v.is_empty() == lens.iter().all(|&l| l as usize > max), "no substring although a character fits (or one although none fits)");
        // complete up to inclusion: every fitting run of characters lies inside an enumerated one
        if n <= 40 {
            for st in 0..n {
                for en in st + 1..=n {
                    if pre[en] - pre[st] <= max {
                        o.check(v.iter().any(|&(b, e, _)| b <= pre[st] && pre[en] <= e), "a fitting run of characters is inside no enumerated substring");
                    }
                }
            }
        }
    } else {
        o.check(v.len() == n - max.min(n) + 1, "not every start position has its substring");
    }
    Ok(o)
}

pub fn exec(op: &str, a: &[u64]) -> Result<Outcome, String> {
    match op {
        "cstr" => return exec_cstr(a),
        "charsubs" | "bytesubs" => return exec_subs(op, a),
        "windows" => {}
        _ => return Err(format!("unknown op {op}")),
    }
    let mut r = Rd::new(a);
    let kind = r.nat()?;
    let max = r.usize()?;
    let ctx = r.usize()?;
    let var = r.nat()?;
    let lens = r.nats()?;
    // the observation of the generating run (windows or "error") is for the model: how long the windows are is not
    // fixed by the property; this run's answer is judged by the oracle below
    let _obs = r.opt(|r| r.list(|r| Ok([r.nat()?, r.nat()?, r.nat()?, r.nat()?, r.nat()?, r.nat()?, r.nat()?, r.nat()?])))?;
    r.end()?;
    let (s, needs_g) = string_of_lens(&lens, var)?;
    // both modes give the same clusters when no cluster has more than one code point; use graphemes
    // whenever a multi-code-point cluster is present, otherwise alternate deterministically
    let g = needs_g.unwrap_or(lens.len().wrapping_add(max) % 2 == 0);
    let cs = CharString::new(&s, g);
    let real: Vec<u64> = cs.get_char_byte_lengths().into_iter().map(|x| x as u64).collect();
    if real != lens {
        return Err("string does not realise the requested cluster lengths".into());
    }
    let cfg = match kind {
        0 => WindowConfig::Character(max, ctx, g),
        1 => WindowConfig::Bytes(max, ctx, g),
        2 => WindowConfig::Full(g),
        _ => return Err("bad kind".into()),
    };
    let n = lens.len();
    match windows(&s, &cfg) {
        Ok(ws) => {
            let mut o = Outcome::new("accept".to_string());
            if n > 0 {
                // prefix sums: byte offset of character position k
                let mut pre = vec![0usize];
                for l in &lens {
                    pre.push(pre.last().unwrap() + *l as usize);
                }
                o.check(!ws.is_empty() && ws[0].boundaries().1 == 0, "first window does not start at 0");
                o.check(ws.last().map(|w| w.boundaries().2) == Some(n), "last window does not end at the text length");
                let mut recon = String::new();
                for (i, w) in ws.iter().enumerate() {
                    let (cs_, ws_, we_, ce_) = w.boundaries();
                    let (bcs, bws, bwe, bce) = w.byte_boundaries();
                    o.check(ws_ < we_, "empty window");
                    if i > 0 {
                        o.check(ws_ == ws[i - 1].boundaries().2, "window does not start where the previous ended");
                    }
                    o.check(cs_ <= ws_ && we_ <= ce_ && ce_ <= n, "context does not contain its window");
                    match kind {
                        0 => o.check(ce_ - cs_.min(ce_) <= max, "context exceeds max characters"),
                        1 => o.check(bce - bcs.min(bce) <= max, "context exceeds max bytes"),
                        _ => {}
                    }
                    if ce_ <= n && cs_ <= n && ws_ <= n && we_ <= n {
                        o.check((bcs, bws, bwe, bce) == (pre[cs_], pre[ws_], pre[we_], pre[ce_]), "byte and character boundaries denote different positions");
                    }
                    if bcs <= bce && bce <= s.len() && s.is_char_boundary(bcs) && s.is_char_boundary(bce) {
                        o.check(w.str == &s[bcs..bce], "reported string is not the context slice");
                    } else {
                        o.check(false, "context byte range invalid");
                    }
                    if bws <= bwe && bwe <= s.len() && s.is_char_boundary(bws) && s.is_char_boundary(bwe) {
                        recon.push_str(&s[bws..bwe]);
                    }
                }
                o.check(recon == s, "concatenated window byte ranges do not reproduce the text");
                if kind != 2 {
                    o.check((max as u128) > 2 * ctx as u128, "impossible configuration accepted");
                }
            }
            Ok(o)
        }
        Err(e) => {
            let msg = e.to_string();
            let k = if msg.starts_with("max ") { "bad-config" } else if msg.starts_with("single character") { "too-wide" } else { "other" };
            let _ = k;
            let mut o = Outcome::new("accept".to_string());
            if kind != 2 && (max as u128) > 2 * ctx as u128 && n > 0 {
                // valid configuration: only a character wider than the window may fail (byte windows)
                let wl_first = max - ctx;
                let wl_rest = max - 2 * ctx;
                let too_wide = kind == 1 && lens.iter().enumerate().any(|(i, &l)| l as usize > if i == 0 { wl_first } else { wl_rest.max(0) } || l as usize > wl_first);
                let _ = too_wide;
                o.check(kind == 1 && lens.iter().any(|&l| l as usize > wl_rest), "error on a valid configuration although every character fits");
            }
            Ok(o)
        }
    }
}

/// random cluster byte lengths: runs of equal lengths (what the run-length encoding compresses) as well as
/// alternating ones
fn rand_lens(ctx: &mut Ctx, maxlen: usize) -> Vec<u64> {
    let len = ctx.rng.random_range(0..=maxlen);
    let mut lens: Vec<u64> = vec![];
    while lens.len() < len {
        let r = ctx.rng.random_range(0..100);
        let l = if r < 40 { 1 } else if r < 60 { 2 } else if r < 75 { 3 } else if r < 88 { 4 } else if r < 91 { 8 } else if r < 93 { 11 } else if r < 95 { 25 } else { ctx.rng.random_range(5..=9) };
        let run = if ctx.rng.random_range(0..3) == 0 { ctx.rng.random_range(1..=6) } else { 1 };
        for _ in 0..run {
            if lens.len() < len {
                lens.push(l);
            }
        }
    }
    lens
}

/// requests about `CharString` itself and the two substring enumerations
fn run_cstr(ctx: &mut Ctx) {
    let emit_cstr = |ctx: &mut Ctx, lens: &[u64], qs: &[(u64, u64)]| {
        let var: u64 = if ctx.rng.random_range(0..3) == 0 { 0 } else { ctx.rng.random() };
        let mut v = vec![var];
        enc_nats(&mut v, lens.iter().copied());
        v.push(qs.len() as u64);
        for &(a, b) in qs {
            v.extend([a, b]);
        }
        ctx.case("cstr", &v);
    };
    let emit_subs = |ctx: &mut Ctx, op: &str, max: u64, lens: &[u64]| {
        let var: u64 = if ctx.rng.random_range(0..3) == 0 { 0 } else { ctx.rng.random() };
        let mut v = vec![var, max];
        enc_nats(&mut v, lens.iter().copied());
        ctx.case(op, &v);
    };
    let all_queries = |n: u64| -> Vec<(u64, u64)> {
        let mut q = vec![];
        for a in 0..=n + 1 {
            for b in 0..=n + 1 {
                q.push((a, b));
            }
        }
        q.push((0, u64::MAX));
        q.push((u64::MAX, u64::MAX));
        q
    };
    if ctx.first_shard() {
        for lens in [vec![], vec![1], vec![3], vec![1, 1, 1, 2, 2, 1, 4, 4, 5], vec![2, 2, 2, 2], vec![1, 2, 1, 3], vec![4, 4], vec![1, 1, 8, 8, 1]] {
            let q = all_queries(lens.len() as u64);
            emit_cstr(ctx, &lens, &q);
            for max in [0u64, 1, 2, 3, 4, 5, 7, 8, 9, 100, u64::MAX] {
                emit_subs(ctx, "charsubs", max, &lens);
                emit_subs(ctx, "bytesubs", max, &lens);
            }
        }
    }
    if ctx.thorough && ctx.first_shard() {
        // exhaustive: every length vector of up to 6 clusters over {1,2,3,4}: every (start, end) query, every max
        let mut frontier: Vec<Vec<u64>> = vec![vec![]];
        for _ in 0..6 {
            let mut next = vec![];
            for v in &frontier {
                for l in 1..=4u64 {
                    let mut t = v.clone();
                    t.push(l);
                    next.push(t);
                }
            }
            for lens in &next {
                let q = all_queries(lens.len() as u64);
                emit_cstr(ctx, lens, &q);
                for max in 0..=(lens.iter().sum::<u64>() + 1).min(13) {
                    emit_subs(ctx, "charsubs", max, lens);
                    emit_subs(ctx, "bytesubs", max, lens);
                }
            }
            frontier = next;
        }
    }
    let n = ctx.budget(1500, 60000);
    for i in 0..n {
        let lens = rand_lens(ctx, if i % 100 == 7 { 1500 } else if i % 10 == 0 { 40 } else { 10 });
        let len = lens.len() as u64;
        match i % 3 {
            0 => {
                let nq = ctx.rng.random_range(1..=12);
                let qs: Vec<(u64, u64)> = (0..nq)
                    .map(|_| {
                        let a = ctx.rng.random_range(0..=len + 2);
                        let b = if ctx.rng.random_range(0..8) == 0 { ctx.rng.random_range(0..=len + 2) } else { ctx.rng.random_range(a..=len + 3) };
                        (a, b)
                    })
                    .collect();
                emit_cstr(ctx, &lens, &qs);
            }
            1 => {
                let max = if ctx.rng.random_range(0..12) == 0 { 0 } else { ctx.rng.random_range(1..=len + 2) };
                emit_subs(ctx, "charsubs", max, &lens);
            }
            _ => {
                let total: u64 = lens.iter().sum();
                let max = match ctx.rng.random_range(0..10) {
                    0 => 0,
                    1 => total,
                    2 => total + 1,
                    3..=5 => ctx.rng.random_range(1..=12),
                    _ => ctx.rng.random_range(0..=total.max(1)),
                };
                emit_subs(ctx, "bytesubs", max, &lens);
            }
        }
    }
}

pub fn run_c16(ctx: &mut Ctx) {
    let mut emit = |ctx: &mut Ctx, kind: u64, max: u64, c: u64, lens: &[u64]| {
        // realisation of the clusters: the plain one for a third of the requests, a random one otherwise
        let var: u64 = if ctx.rng.random_range(0..3) == 0 { 0 } else { ctx.rng.random() };
        let mut v = vec![kind, max, c, var];
        enc_nats(&mut v, lens.iter().copied());
        enc_observation(&mut v, kind, max as usize, c as usize, var, lens);
        ctx.case("windows", &v);
    };
    if ctx.first_shard() {
        for kind in 0..3 {
            emit(ctx, kind, 5, 1, &[]);
            emit(ctx, kind, 0, 0, &[1]);
            emit(ctx, kind, 2, 1, &[1, 2]);
            emit(ctx, kind, 3, 1, &[4, 4, 4]);
            emit(ctx, kind, 4, 0, &[1, 2, 3, 4, 7, 1]);
        }
        // texts that start with a byte order mark / consist of one only (realisation selector 3 for the first cluster)
        for kind in 0..3 {
            for lens in [vec![3u64], vec![3, 1, 1, 2], vec![3, 3, 1], vec![2, 1, 1]] {
                let mut v = vec![kind, 6, 1, 3];
                enc_nats(&mut v, lens.iter().copied());
                enc_observation(&mut v, kind, 6, 1, 3, &lens);
                ctx.case("windows", &v);
            }
        }
        // a wide grapheme cluster as the last character(s) behind a full window (right context counted in bytes)
        emit(ctx, 1, 16, 4, &[1, 1, 1, 1, 1, 1, 1, 1, 1, 1, 1, 1, 8]);
        emit(ctx, 1, 44, 8, &[1, 1, 1, 1, 1, 1, 1, 1, 1, 1, 1, 1, 1, 1, 1, 1, 1, 1, 1, 1, 1, 1, 1, 1, 1, 1, 1, 1, 1, 1, 1, 1, 1, 1, 1, 1, 25, 1]);
        emit(ctx, 1, 20, 5, &[2, 2, 2, 2, 2, 2, 2, 1, 11]);
        // "no limit" and other values at the top of the range (the arithmetic on max and context must not overflow)
        let m = u64::MAX;
        for kind in 0..2 {
            for (max, c) in [(m, 0), (m, 1), (m, 5), (m - 1, 3), (m, m / 2), (m - 1, m / 2), (m, m / 2 + 1), (m / 2, m / 4), (m / 2 + 1, m / 4), (m, m), (7, m), (0, m / 2 + 1), (m / 2, m / 2 + 1)] {
                emit(ctx, kind, max, c, &[1, 2, 3, 4, 1]);
                emit(ctx, kind, max, c, &[2]);
            }
        }
    }
    if ctx.thorough && ctx.first_shard() {
        // exhaustive: all byte-length vectors of length ≤ 6 over {1,2,3,4}, max 0..12, ctx 0..5 (sampled grid), 3 kinds
        let mut vecs: Vec<Vec<u64>> = vec![vec![]];
        let mut frontier: Vec<Vec<u64>> = vec![vec![]];
        for _ in 0..6 {
            let mut next = vec![];
            for v in &frontier {
                for l in 1..=4u64 {
                    let mut t = v.clone();
                    t.push(l);
                    next.push(t);
                }
            }
            vecs.extend(next.iter().cloned());
            frontier = next;
        }
        for lens in &vecs {
            for (max, c) in [(0u64, 0u64), (1, 0), (2, 0), (2, 1), (3, 1), (4, 1), (5, 2), (6, 2), (7, 3), (9, 1), (12, 5)] {
                for kind in 0..2 {
                    emit(ctx, kind, max, c, lens);
                }
            }
            emit(ctx, 2, 0, 0, lens);
        }
    }
    run_cstr(ctx);
    let n = ctx.budget(6000, 300000);
    for i in 0..n {
        let len = ctx.rng.random_range(0..=if i % 300 == 5 { 1200 } else if i % 10 == 0 { 30 } else { 9 });
        let lens: Vec<u64> = (0..len)
            .map(|_| {
                let r = ctx.rng.random_range(0..100);
                if r < 40 { 1 } else if r < 60 { 2 } else if r < 75 { 3 } else if r < 88 { 4 } else if r < 91 { 8 } else if r < 93 { 11 } else if r < 95 { 25 } else { ctx.rng.random_range(5..=9) }
            })
            .collect();
        // mostly small limits; every fifth request larger ones (contexts of several characters, where "how many
        // characters remain" and "how many bytes remain" differ by a lot for wide clusters)
        let (max, c) = if i % 5 == 4 { (ctx.rng.random_range(8..=48), ctx.rng.random_range(0..=14)) } else { (ctx.rng.random_range(0..=12), ctx.rng.random_range(0..=5)) };
        if i % 9 == 5 {
            // a window that is exactly full, followed by a few wide clusters (fewer than ctx / 4 of them, more than
            // ctx bytes): byte windows must count the right context in bytes
            let c = ctx.rng.random_range(4..=12u64);
            let max = 2 * c + ctx.rng.random_range(1..=30u64);
            let mut lens: Vec<u64> = vec![];
            let mut total = 0;
            while total < max - c {
                let l = [1u64, 1, 2, 3][ctx.rng.random_range(0..4)].min(max - c - total);
                lens.push(l);
                total += l;
            }
            for _ in 0..ctx.rng.random_range(1..=(c / 4).max(1)) {
                lens.push([5u64, 7, 8, 11, 25][ctx.rng.random_range(0..5)]);
            }
            let k = ctx.rng.random_range(0..2);
            emit(ctx, k, max, c, &lens);
            continue;
        }
        let kind = ctx.rng.random_range(0..10).min(2) % 3;
        let kind = if i % 10 == 9 { 2 } else { kind % 2 };
        emit(ctx, kind, max, c, &lens);
    }
    let _ = gen::WS;
}
