//! Line protocol helpers (DESIGN.md §2): numbers only, lists length-prefixed.
use text_utils::unicode::CharString as CS;

pub struct Rd<'a> {
    a: &'a [u64],
    p: usize,
}

pub type R<T> = Result<T, String>;

impl<'a> Rd<'a> {
    pub fn new(a: &'a [u64]) -> Self {
        Rd { a, p: 0 }
    }
    pub fn nat(&mut self) -> R<u64> {
        let v = *self.a.get(self.p).ok_or("short request")?;
        self.p += 1;
        Ok(v)
    }
    pub fn usize(&mut self) -> R<usize> {
        Ok(self.nat()? as usize)
    }
    pub fn bool(&mut self) -> R<bool> {
        match self.nat()? {
            0 => Ok(false),
            1 => Ok(true),
            _ => Err("bad bool".into()),
        }
    }
    pub fn nats(&mut self) -> R<Vec<u64>> {
        let n = self.usize()?;
        (0..n).map(|_| self.nat()).collect()
    }
    pub fn list<T>(&mut self, mut f: impl FnMut(&mut Self) -> R<T>) -> R<Vec<T>> {
        let n = self.usize()?;
        let mut v = Vec::with_capacity(n.min(1 << 16));
        for _ in 0..n {
            v.push(f(self)?);
        }
        Ok(v)
    }
    pub fn opt<T>(&mut self, f: impl FnOnce(&mut Self) -> R<T>) -> R<Option<T>> {
        if self.bool()? {
            Ok(Some(f(self)?))
        } else {
            Ok(None)
        }
    }
    /// a text: list of clusters of code points
    pub fn text(&mut self) -> R<Vec<Vec<u64>>> {
        self.list(|r| r.nats())
    }
    /// flag + text, decoded to a string; checks that the real segmentation of the string is the
    /// one the request claims (so that the model and the implementation see the same clusters)
    pub fn gtext(&mut self) -> R<(bool, String)> {
        let g = self.bool()?;
        let t = self.text()?;
        let s = text_to_string(&t)?;
        if enc_text(&s, g) != enc_text_raw(&t) {
            return Err("segmentation differs from request".into());
        }
        Ok((g, s))
    }
    /// string given as plain list of code points
    pub fn string(&mut self) -> R<String> {
        let cps = self.nats()?;
        cps_to_string(&cps)
    }
    pub fn bytes(&mut self) -> R<Vec<u8>> {
        let b = self.nats()?;
        b.into_iter()
            .map(|x| u8::try_from(x).map_err(|_| "bad byte".to_string()))
            .collect()
    }
    pub fn end(&self) -> R<()> {
        if self.p == self.a.len() {
            Ok(())
        } else {
            Err("trailing tokens".into())
        }
    }
}

pub fn cps_to_string(cps: &[u64]) -> R<String> {
    cps.iter()
        .map(|&c| u32::try_from(c).ok().and_then(char::from_u32).ok_or_else(|| "bad scalar".to_string()))
        .collect()
}

pub fn text_to_string(t: &[Vec<u64>]) -> R<String> {
    let mut s = String::new();
    for c in t {
        s.push_str(&cps_to_string(c)?);
    }
    Ok(s)
}

pub fn enc_nats(out: &mut Vec<u64>, l: impl IntoIterator<Item = u64>) {
    let v: Vec<u64> = l.into_iter().collect();
    out.push(v.len() as u64);
    out.extend(v);
}

pub fn enc_str(out: &mut Vec<u64>, s: &str) {
    enc_nats(out, s.chars().map(|c| c as u64));
}

pub fn enc_bytes(out: &mut Vec<u64>, b: &[u8]) {
    enc_nats(out, b.iter().map(|&c| c as u64));
}

pub fn enc_text_raw(t: &[Vec<u64>]) -> Vec<u64> {
    let mut out = vec![t.len() as u64];
    for c in t {
        enc_nats(&mut out, c.iter().copied());
    }
    out
}

/// clusters of `s` as the code under test sees them (`CharString::new(s, g)`)
pub fn clusters(s: &str, g: bool) -> Vec<Vec<u64>> {
    CS::split(s, g).map(|c| c.chars().map(|x| x as u64).collect()).collect()
}

pub fn enc_text(s: &str, g: bool) -> Vec<u64> {
    enc_text_raw(&clusters(s, g))
}

pub fn enc_gtext(out: &mut Vec<u64>, s: &str, g: bool) {
    out.push(g as u64);
    out.extend(enc_text(s, g));
}

pub fn ok(l: impl IntoIterator<Item = u64>) -> String {
    let mut s = String::from("ok");
    for x in l {
        s.push(' ');
        s.push_str(&x.to_string());
    }
    s
}

pub fn ok_str(s: &str) -> String {
    let mut v = vec![];
    enc_str(&mut v, s);
    ok(v)
}

pub fn ok_pairs(l: &[(usize, usize)]) -> String {
    let mut v = vec![l.len() as u64];
    for &(a, b) in l {
        v.push(a as u64);
        v.push(b as u64);
    }
    ok(v)
}

pub fn err(k: &str) -> String {
    format!("err {k}")
}
